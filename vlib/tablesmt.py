"""Engine T, part 2: the character tables as SMT.

The eight neighbours of a cell are variables of an enumerated sort Char (every
character that has a table entry, plus NONE = blank / off-grid / a character
without entry: all of these give Property::empty()).  A behaviour condition is
a boolean combination of atoms `N.line_overlap(p,q)` etc.; for concrete p,q an
atom is true exactly for a finite set of characters, computed from the
signatures with exact rational geometry.  Properties of the fragments a cell
emits are asserted negated; `unsat` = holds for ALL |Char|^8 neighbourhoods,
`sat` = a concrete 3x3 grid, which is replayed on the real crate.
"""
import math
import os
import random
import re
import subprocess
import time
from fractions import Fraction

from . import core, tables
from .tables import NEIGHBOURS, T, F, Pt

PROPS = {"C03", "C09", "C12", "C14"}
REPLAY_DIR = os.path.join(core.VERIF, "replay")
REPLAY_TARGET = os.path.join(core.CACHE, "replay-target")


# ---------------------------------------------------------------------------
# exact geometry on table fragments

def on_segment(a, b, p):
    cr = (b[0] - a[0]) * (p[1] - a[1]) - (b[1] - a[1]) * (p[0] - a[0])
    if cr != 0:
        return False
    dot = (p[0] - a[0]) * (b[0] - a[0]) + (p[1] - a[1]) * (b[1] - a[1])
    l2 = (b[0] - a[0]) ** 2 + (b[1] - a[1]) ** 2
    return 0 <= dot <= l2


class Model:
    def __init__(self, src_root):
        self.t = tables.Tables(src_root)
        self.chars = self.t.all_chars()           # chars with a property
        self.index = {c: i for i, c in enumerate(self.chars)}
        self._atom_cache = {}

    def cname(self, ch):
        if ch is None:
            return "NONE"
        return "c%04x" % ord(ch)

    # set of neighbour characters for which an atom is true
    def atom_set(self, atom):
        _, nb, kind, args = atom
        key = (kind, args)
        if key in self._atom_cache:
            return self._atom_cache[key]
        s = set()
        for ch in self.chars:
            sig = self.t.signature_of(ch)
            ok = False
            if kind == "line":
                req, p, q = args
                for (sg, frs) in sig:
                    if sg >= req:
                        for f in frs:
                            if f[0] == "line" and on_segment(f[1], f[2], p) and on_segment(f[1], f[2], q):
                                ok = True
            elif kind == "arc":
                p, q = args
                want = tables.mk_arc(p, q, 1)
                for (sg, frs) in sig:
                    for f in frs:
                        if f[0] == "arc" and f[1] == want[1] and f[2] == want[2] and f[4] == want[4]:
                            ok = True
            elif kind == "is":
                ok = (ch == args[0])
            if ok:
                s.add(ch)
        if kind == "is" and args[0] == " ":
            s.add(None)  # Property::empty() has ch == ' '
        self._atom_cache[key] = frozenset(s)
        return self._atom_cache[key]

    def behaviour(self, ch):
        """[(formula, [frags])] of the character as CENTRE"""
        if ch in self.t.ascii:
            return self.t.ascii[ch][1]
        return [(T, list(self.t.unicode[ch]))]

    # concrete evaluation (used for validation against the real code) --------
    def eval_formula(self, f, nb):
        k = f[0]
        if k == "t":
            return True
        if k == "f":
            return False
        if k == "and":
            return self.eval_formula(f[1], nb) and self.eval_formula(f[2], nb)
        if k == "or":
            return self.eval_formula(f[1], nb) or self.eval_formula(f[2], nb)
        if k == "not":
            return not self.eval_formula(f[1], nb)
        if k == "atom":
            ch = nb[f[1]]
            if ch is not None and ch not in self.index:
                ch = None
            return ch in self.atom_set(f)
        raise ValueError(f)

    def eval_formula_possible(self, f, nbname, ch):
        """can formula f be true in some neighbourhood where neighbour nbname is ch?  (cheap syntactic
        over-approximation used only to pick an adjoining axis: atoms on other neighbours are free)"""
        k = f[0]
        if k in ("t",):
            return True
        if k == "f":
            return False
        if k == "and":
            return self.eval_formula_possible(f[1], nbname, ch) and self.eval_formula_possible(f[2], nbname, ch)
        if k == "or":
            return self.eval_formula_possible(f[1], nbname, ch) or self.eval_formula_possible(f[2], nbname, ch)
        if k == "not":
            g = f[1]
            if g[0] == "atom" and g[1] == nbname:
                return ch not in self.atom_set(g)
            return True
        if k == "atom":
            if f[1] != nbname:
                return True
            return ch in self.atom_set(f)
        return True

    def eval_centre(self, centre, nb):
        out = []
        for cond, frs in self.behaviour(centre):
            if self.eval_formula(cond, nb):
                out.extend(frs)
        return out

    # SMT text ---------------------------------------------------------------
    def smt_formula(self, f):
        k = f[0]
        if k == "t":
            return "true"
        if k == "f":
            return "false"
        if k == "and":
            return "(and %s %s)" % (self.smt_formula(f[1]), self.smt_formula(f[2]))
        if k == "or":
            return "(or %s %s)" % (self.smt_formula(f[1]), self.smt_formula(f[2]))
        if k == "not":
            return "(not %s)" % self.smt_formula(f[1])
        if k == "atom":
            s = self.atom_set(f)
            if not s:
                return "false"
            return "(or false %s)" % " ".join("(= %s %s)" % (f[1], self.cname(c)) for c in sorted(s, key=lambda c: (c is None, c or "")))
        raise ValueError(f)

    def smt_prelude(self):
        ctors = " ".join("(%s)" % self.cname(c) for c in self.chars)
        lines = ["(set-option :produce-models true)",
                 "(set-logic ALL)",
                 "(declare-datatypes ((Char 0)) (((NONE) %s)))" % ctors]
        for n in NEIGHBOURS:
            lines.append("(declare-const %s Char)" % n)
        return "\n".join(lines)


def f_any(fs):
    out = F
    for f in fs:
        out = tables.f_or(out, f)
    return out


def f_all(fs):
    out = T
    for f in fs:
        out = tables.f_and(out, f)
    return out


# ---------------------------------------------------------------------------
# solver processes

class Solver:
    def __init__(self, prelude, logpath):
        self.script = [prelude]
        self.results = []
        self.time = 0.0
        self.p = subprocess.Popen(["z3", "-in"], stdin=subprocess.PIPE, stdout=subprocess.PIPE,
                                  stderr=subprocess.STDOUT, text=True, bufsize=1)
        self._send(prelude)
        self.logpath = logpath
        self.errors = []

    def _send(self, text):
        self.p.stdin.write(text + "\n")
        self.p.stdin.flush()

    def _readline(self):
        ln = self.p.stdout.readline()
        if ln.startswith("(error"):
            self.errors.append(ln.strip())
        return ln.strip()

    def check(self, assertions, want_model=True):
        """returns ('unsat', None) | ('sat', {nb: ctor}) | ('unknown', None)"""
        t0 = time.time()
        block = ["(push 1)"] + ["(assert %s)" % a for a in assertions] + ["(check-sat)"]
        self.script.extend(block)
        self._send("\n".join(block))
        res = self._readline()
        while res.startswith("(error"):
            res = self._readline()
        model = None
        if res == "sat" and want_model:
            self._send("(get-value (%s))" % " ".join(NEIGHBOURS))
            txt = ""
            depth = 0
            while True:
                ln = self.p.stdout.readline()
                txt += ln
                depth += ln.count("(") - ln.count(")")
                if depth <= 0 and txt.strip():
                    break
            model = dict(re.findall(r"\((\w+) (\w+)\)", txt))
        self._send("(pop 1)")
        self.script.append("(pop 1)")
        self.time += time.time() - t0
        self.results.append(res)
        return res, model

    def close(self):
        try:
            self._send("(exit)")
            self.p.wait(timeout=5)
        except Exception:
            self.p.kill()
        with open(self.logpath, "w") as f:
            f.write("\n".join(self.script) + "\n")

    def cross_check(self):
        """replay the whole script through cvc5 and compare the verdict list"""
        t0 = time.time()
        try:
            p = subprocess.run(["cvc5", "--incremental", "--lang", "smt2", self.logpath],
                               stdout=subprocess.PIPE, stderr=subprocess.STDOUT, text=True, timeout=600)
        except Exception as e:  # noqa
            return {"ok": False, "detail": "cvc5 failed: %r" % e}
        res = [l.strip() for l in p.stdout.split("\n") if l.strip() in ("sat", "unsat", "unknown")]
        errs = [l for l in p.stdout.split("\n") if "error" in l.lower()]
        ok = (res == self.results) and not errs
        return {"ok": ok, "queries": len(res), "cvc5_s": round(time.time() - t0, 2),
                "detail": "" if ok else "z3=%s cvc5=%s errs=%s" % (self.results[:20], res[:20], errs[:3])}


# ---------------------------------------------------------------------------
# native oracle (the real crate through its public API)

class Native:
    def __init__(self):
        self.p = None
        self.build_s = 0.0

    def build(self):
        t0 = time.time()
        import shutil
        import hashlib
        rdir, tdir = REPLAY_DIR, REPLAY_TARGET
        if core.REPO != "/repo":
            # evaluation against another checkout (VERIF_REPO): private copy of the oracle crate and target dir
            tag = hashlib.sha256(core.REPO.encode()).hexdigest()[:10]
            rdir = os.path.join(core.SCRATCH_ROOT, "replay-" + tag)
            tdir = os.path.join(core.CACHE, "replay-target-" + tag)
            shutil.rmtree(rdir, ignore_errors=True)
            os.makedirs(rdir)
            shutil.copytree(os.path.join(REPLAY_DIR, "src"), os.path.join(rdir, "src"))
            toml = open(os.path.join(REPLAY_DIR, "Cargo.toml")).read().replace(
                "/repo/crates/svgbob", os.path.join(core.REPO, "crates", "svgbob"))
            open(os.path.join(rdir, "Cargo.toml"), "w").write(toml)
            if not os.path.exists(tdir) and os.path.exists(REPLAY_TARGET):
                subprocess.run(["cp", "-al", REPLAY_TARGET, tdir])
        lock = os.path.join(core.REPO, "Cargo.lock")
        if os.path.exists(lock):
            shutil.copy(lock, os.path.join(rdir, "Cargo.lock"))
        env = dict(core.ENV)
        env["CARGO_TARGET_DIR"] = tdir
        r = subprocess.run(["cargo", "build", "--offline", "--quiet"], cwd=rdir, env=env,
                           stdout=subprocess.PIPE, stderr=subprocess.STDOUT, text=True)
        self.build_s = time.time() - t0
        if r.returncode != 0:
            return r.stdout[-2000:]
        self.p = subprocess.Popen([os.path.join(tdir, "debug", "verif_replay")],
                                  stdin=subprocess.PIPE, stdout=subprocess.PIPE, text=True, bufsize=1)
        return None

    def neighbourhood(self, grid9):
        self.p.stdin.write("N " + " ".join("%x" % ord(c) for c in grid9) + "\n")
        self.p.stdin.flush()
        return self.p.stdout.readline().rstrip("\n")

    def close(self):
        if self.p:
            self.p.stdin.close()
            self.p.wait()


def fnum(x):
    return float(x)


def canon_model_frag(f):
    """same shape as replay/src/main.rs prints, as (kind, numbers, rest)"""
    k = f[0]
    if k == "line":
        return ("line", [fnum(f[1][0]), fnum(f[1][1]), fnum(f[2][0]), fnum(f[2][1])], str(int(f[3])))
    if k == "arc":
        return ("arc", [fnum(f[1][0]), fnum(f[1][1]), fnum(f[2][0]), fnum(f[2][1]), fnum(f[3])], "0 %d" % int(f[4]))
    if k == "circle":
        return ("circle", [fnum(f[1][0]), fnum(f[1][1]), fnum(f[2])], str(int(f[3])))
    if k == "polygon":
        nums = []
        for p in f[1]:
            nums += [fnum(p[0]), fnum(p[1])]
        return ("polygon", nums, "%d %s" % (int(f[2]), "+".join(f[3])))
    if k == "rect":
        return ("rect", [fnum(f[1][0]), fnum(f[1][1]), fnum(f[2][0]), fnum(f[2][1])], "%d %d -" % (int(f[3]), int(f[4])))
    raise ValueError(k)


def parse_native(line):
    out = []
    if not line.strip():
        return out
    for part in line.split(" | "):
        toks = part.split(" ")
        kind = toks[0]
        if kind in ("celltext", "text"):
            out.append((kind, [], ""))
            continue
        nums = []
        rest = []
        for tk in toks[1:]:
            sub = re.split(r"[;,]", tk)
            try:
                vals = [float(x) for x in sub]
                if "." in tk:
                    nums += vals
                else:
                    rest.append(tk)
            except ValueError:
                rest.append(tk)
        out.append((kind, nums, " ".join(rest)))
    return out


def same_frags(model_frags, native_frags):
    a = sorted(canon_model_frag(f) for f in model_frags)
    b = sorted(native_frags)
    if not a:
        return len(b) == 1 and b[0][0] == "celltext"
    if len(a) != len(b):
        return False
    used = [False] * len(b)
    for fa in a:
        hit = False
        for j, fb in enumerate(b):
            if used[j] or fa[0] != fb[0] or fa[2] != fb[2] or len(fa[1]) != len(fb[1]):
                continue
            if all(abs(x - y) < 1e-5 for x, y in zip(fa[1], fb[1])):
                used[j] = True
                hit = True
                break
        if not hit:
            return False
    return True


# ---------------------------------------------------------------------------
# strokes: decomposition of emitted lines into elementary lattice pieces

def pieces_of(line):
    """split a lattice line into elementary pieces between consecutive points of
    the 1/8 lattice that lie on it"""
    a, b = line[1], line[2]
    dx = (b[0] - a[0]) * 8
    dy = (b[1] - a[1]) * 8
    if dx.denominator != 1 or dy.denominator != 1:
        return None
    n = math.gcd(abs(int(dx)), abs(int(dy)))
    if n == 0:
        return []
    out = []
    for i in range(n):
        p = Pt(a[0] + (b[0] - a[0]) * Fraction(i, n), a[1] + (b[1] - a[1]) * Fraction(i, n))
        q = Pt(a[0] + (b[0] - a[0]) * Fraction(i + 1, n), a[1] + (b[1] - a[1]) * Fraction(i + 1, n))
        out.append((p, q) if p.key() <= q.key() else (q, p))
    return out


def stroke_map(model, centre):
    """piece -> formula (emitted solid), piece -> formula (emitted dashed), [(formula, frag)] non-lines"""
    solid, dashed, other = {}, {}, []
    for cond, frs in model.behaviour(centre):
        for f in frs:
            if f[0] == "line":
                ps = pieces_of(f)
                if ps is None:
                    other.append((cond, f))
                    continue
                tgt = dashed if f[3] else solid
                for pc in ps:
                    tgt[pc] = tables.f_or(tgt.get(pc, F), cond)
            else:
                other.append((cond, f))
    return solid, dashed, other


def emits_nothing(model, centre):
    return f_all(tables.f_not(c) for c, frs in model.behaviour(centre) if frs)


# ---------------------------------------------------------------------------
# geometry helpers for bounds

def arc_centre(f):
    """centre of the SVG arc `M s A r,r 0,0,sweep e` (SVG 1.1 appendix F.6.5, phi = 0,
    large-arc flag 0 as svgbob always writes it for table arcs)"""
    (x1, y1), (x2, y2), r, sweep = (float(f[1][0]), float(f[1][1])), (float(f[2][0]), float(f[2][1])), float(f[3]), f[4]
    xp, yp = (x1 - x2) / 2.0, (y1 - y2) / 2.0
    d2 = xp * xp + yp * yp
    if d2 == 0:
        return (x1, y1), r
    if r * r < d2:
        r = math.sqrt(d2)  # SVG scales too-small radii up
    fac = math.sqrt(max(r * r - d2, 0.0) / d2)
    sign = 1.0 if sweep else -1.0
    cxp, cyp = sign * fac * yp, -sign * fac * xp
    return (cxp + (x1 + x2) / 2.0, cyp + (y1 + y2) / 2.0), r


def arc_extent(f):
    (cx, cy), r = arc_centre(f)
    x1, y1, x2, y2 = float(f[1][0]), float(f[1][1]), float(f[2][0]), float(f[2][1])
    t1 = math.atan2(y1 - cy, x1 - cx)
    t2 = math.atan2(y2 - cy, x2 - cx)
    if f[4]:
        while t2 < t1:
            t2 += 2 * math.pi
        lo, hi = t1, t2
    else:
        while t2 > t1:
            t2 -= 2 * math.pi
        lo, hi = t2, t1
    xs, ys = [x1, x2], [y1, y2]
    for kq in range(-8, 9):
        ang = kq * math.pi / 2.0
        if lo - 1e-12 <= ang <= hi + 1e-12:
            xs.append(cx + r * math.cos(ang))
            ys.append(cy + r * math.sin(ang))
    return min(xs), min(ys), max(xs), max(ys)

def frag_extent(f):
    """conservative bounding box (minx, miny, maxx, maxy) as floats"""
    k = f[0]
    if k in ("line", "rect"):
        xs = [f[1][0], f[2][0]]
        ys = [f[1][1], f[2][1]]
        return float(min(xs)), float(min(ys)), float(max(xs)), float(max(ys))
    if k == "polygon":
        xs = [p[0] for p in f[1]]
        ys = [p[1] for p in f[1]]
        return float(min(xs)), float(min(ys)), float(max(xs)), float(max(ys))
    if k == "circle":
        c, r = f[1], f[2]
        return float(c[0] - r), float(c[1] - r), float(c[0] + r), float(c[1] + r)
    if k == "arc":
        return arc_extent(f)
    raise ValueError(k)


# ---------------------------------------------------------------------------
# property queries

def is_in(nb, chars):
    return f_any(("atom", nb, "is", (c,)) for c in chars)


def restrict(model, allowed_by_nb):
    """SMT assertion: each neighbour is NONE or one of the allowed characters"""
    out = []
    for nb in NEIGHBOURS:
        allowed = allowed_by_nb.get(nb, allowed_by_nb.get("*", []))
        opts = ["(= %s NONE)" % nb] + ["(= %s %s)" % (nb, model.cname(c)) for c in allowed]
        out.append("(or %s)" % " ".join(opts))
    return out


def f_xor(a, b):
    return tables.f_or(tables.f_and(a, tables.f_not(b)), tables.f_and(tables.f_not(a), b))


def grid_from_model(model, centre, smt_model):
    inv = {model.cname(c): c for c in model.chars}
    nb = {}
    for n in NEIGHBOURS:
        v = smt_model.get(n, "NONE")
        nb[n] = inv.get(v)  # None for NONE
    order = ["top_left", "top", "top_right", "left", None, "right", "bottom_left", "bottom", "bottom_right"]
    grid9 = [(centre if o is None else (nb[o] or " ")) for o in order]
    return nb, grid9


class TRun:
    def __init__(self, prop, tier, seed):
        self.prop, self.tier, self.seed = prop, tier, seed
        self.results = []
        self.model = None
        self.solver = None
        self.native = None
        self.nq = 0

    def add(self, name, obl, desc, status, **kw):
        r = {"name": name, "obligation": obl, "desc": desc, "status": status}
        r.update(kw)
        self.results.append(r)
        return r

    def decide(self, name, obl, desc, centre, assertions, predicate_desc, key=None):
        """one obligation = one (check-sat); unsat => pass; sat => replay"""
        t0 = time.time()
        res, m = self.solver.check(assertions)
        self.nq += 1
        dt = time.time() - t0
        if res == "unsat":
            return self.add(name, obl, desc, "pass", solver_s=round(dt, 4), queries=1)
        if res != "sat":
            return self.add(name, obl, desc, "inconclusive", reason="solver answered %s" % res, queries=1)
        nb, grid9 = grid_from_model(self.model, centre, m)
        model_frags = self.model.eval_centre(centre, nb)
        native_line = self.native.neighbourhood(grid9)
        agree = same_frags(model_frags, parse_native(native_line))
        os.makedirs(os.path.join(core.VERIF, "replays"), exist_ok=True)
        path = os.path.join(core.VERIF, "replays", "%s-T-%s.txt" % (self.prop, re.sub(r"\W+", "_", name)))
        rows = ["".join(grid9[0:3]), "".join(grid9[3:6]), "".join(grid9[6:9])]
        with open(path, "w") as f:
            f.write("# tablesmt counterexample for property %s, obligation %s (%s)\n" % (self.prop, obl, name))
            f.write("# violated: %s\n" % predicate_desc)
            f.write("# 3x3 neighbourhood (centre cell is the middle character):\n")
            for r in rows:
                f.write("#   |%s|\n" % r)
            f.write("grid9 %s\n" % " ".join("%x" % ord(c) for c in grid9))
            f.write("model_fragments %s\n" % sorted(canon_model_frag(x) for x in model_frags))
            f.write("native_fragments %s\n" % native_line)
            f.write("model_matches_native %s\n" % agree)
        return self.add(name, obl, desc, "fail" if agree else "inconclusive",
                        reason="" if agree else "model counterexample does not match the real code's fragments",
                        key=key or predicate_desc, reproduced=agree, replay=path,
                        counterexample=rows, queries=1, solver_s=round(dt, 4))


def validate(tr, n):
    """differential validation of the translator against the real crate"""
    rnd = random.Random(tr.seed * 7919 + 17)
    model = tr.model
    chars = model.chars
    ascii_chars = [c for c in chars if c in model.t.ascii]
    bad = []
    checked = 0
    grids = []
    # the repository's own pinned neighbourhoods (property_buffer tests)
    pinned = ["   -+-   ", " | -+- | ", "\\ / + / \\", "    _    ", "   ._    ", " _ ._    ", "    *-   ", " | -+    "]
    for g in pinned:
        grids.append(list(g))
    for i in range(n):
        centre = rnd.choice(ascii_chars if rnd.random() < 0.8 else chars)
        g = []
        for j in range(9):
            if j == 4:
                g.append(centre)
                continue
            r = rnd.random()
            if r < 0.3:
                g.append(" ")
            elif r < 0.85:
                g.append(rnd.choice(ascii_chars))
            elif r < 0.95:
                g.append(rnd.choice(chars))
            else:
                g.append(rnd.choice("QaZ09?"))
        grids.append(g)
    order = ["top_left", "top", "top_right", "left", None, "right", "bottom_left", "bottom", "bottom_right"]
    for g in grids:
        centre = g[4]
        if centre not in model.index:
            continue
        nb = {o: (g[i] if g[i] != " " else None) for i, o in enumerate(order) if o}
        mf = model.eval_centre(centre, nb)
        nat = tr.native.neighbourhood(g)
        checked += 1
        if not same_frags(mf, parse_native(nat)):
            bad.append(("".join(g), sorted(canon_model_frag(x) for x in mf), nat))
    return checked, bad


def q_c03(tr):
    m = tr.model
    A = ["-", "|", "+"]
    cg = m.t.interp.cellgrid_fns
    P = lambda n: m.t.interp.call_fn(cg, n, [])
    c, k, mm, o, w = P("c"), P("k"), P("m"), P("o"), P("w")
    line = lambda a, b: tables.mk_line(a, b, False)
    ref = {
        "-": [(T, line(k, o))],
        "|": [(T, line(c, w)),
              (is_in("right", ["-"]), line(mm, o)),
              (is_in("left", ["-"]), line(k, mm))],
        "+": [(is_in("top", ["|", "+"]), line(c, mm)),
              (is_in("bottom", ["|", "+"]), line(mm, w)),
              (is_in("left", ["-", "+"]), line(k, mm)),
              (is_in("right", ["-", "+"]), line(mm, o))],
    }
    R = restrict(m, {"*": A})
    for centre in A:
        if centre not in m.index:
            tr.add("o3_1_strokes_%x" % ord(centre), "O3.1", "", "inconclusive", reason="%r has no table entry" % centre)
            continue
        solid, dashed, other = stroke_map(m, centre)
        refmap = {}
        for cond, ln in ref[centre]:
            for pc in pieces_of(ln):
                refmap[pc] = tables.f_or(refmap.get(pc, F), cond)
        universe = sorted(set(solid) | set(refmap), key=lambda pc: (pc[0].key(), pc[1].key()))
        viol = []
        for pc in universe:
            viol.append(f_xor(solid.get(pc, F), refmap.get(pc, F)))
        viol.append(f_any(dashed.values()))
        viol.append(f_any(cnd for cnd, fr in other))
        desc = ("centre %r, the 8 neighbours ranging over {blank/label, -, |, +} (4^8 neighbourhoods): the solid "
                "strokes emitted (as a point set, %d elementary pieces) equal the specification's strokes; "
                "nothing dashed, no arc/polygon/circle is emitted; the cell is left to the text fallback "
                "exactly when the reference has no stroke" % (centre, len(universe)))
        tr.decide("o3_1_strokes_%x" % ord(centre), "O3.1", desc, centre,
                  R + [m.smt_formula(f_any(viol))],
                  "strokes of %r differ from the specification" % centre,
                  key="strokes of %r differ from the specification" % centre)
        # vacuity witness: the restriction admits a connecting neighbourhood
        res, _ = tr.solver.check(R + [m.smt_formula(f_any(refmap.values()))], want_model=False)
        tr.nq += 1
        if res != "sat":
            tr.add("o3_1_witness_%x" % ord(centre), "O3.1", "vacuity witness", "inconclusive",
                   reason="reference strokes unreachable")


RUN_FAMILIES = [
    # char, inline neighbours, [(p, q, dashed)]
    ("-", ("left", "right"), [("k", "o", False)]),
    ("~", ("left", "right"), [("k", "o", True)]),
    ("_", ("left", "right"), [("u", "y", False)]),
    ("=", ("left", "right"), [((0, 3), (4, 3), False), ((0, 5), (4, 5), False)]),
    ("|", ("top", "bottom"), [("c", "w", False)]),
    (":", ("top", "bottom"), [("c", "w", True)]),
    ("!", ("top", "bottom"), [("c", "w", True)]),
    ("/", ("top_right", "bottom_left"), [("u", "e", False)]),
    ("\\", ("top_left", "bottom_right"), [("a", "y", False)]),
    ("─", ("left", "right"), [("k", "o", False)]),
    ("│", ("top", "bottom"), [("c", "w", False)]),
    ("╱", ("top_right", "bottom_left"), [("u", "e", False)]),
    ("╲", ("top_left", "bottom_right"), [("a", "y", False)]),
    # second session: the remaining single-segment line characters of the unicode table
    ("–", ("left", "right"), [("k", "o", False)]),
    ("—", ("left", "right"), [("k", "o", False)]),
    ("┄", ("left", "right"), [("k", "o", True)]),
    ("╎", ("top", "bottom"), [("c", "w", True)]),
    ("┊", ("top", "bottom"), [("c", "w", True)]),
    ("┆", ("top", "bottom"), [("c", "w", True)]),
    ("‾", ("left", "right"), [("a", "e", False)]),
    ("¯", ("left", "right"), [("a", "e", False)]),
]
# run characters that are a line only when connected to another of their kind
NEEDS_PARTNER = {":", "!"}


def q_c09(tr):
    m = tr.model
    cg = m.t.interp.cellgrid_fns

    def P(n):
        if isinstance(n, tuple):
            return m.t.interp.call_fn(cg, "point", [Fraction(n[0]), Fraction(n[1])])
        return m.t.interp.call_fn(cg, n, [])
    for ch, inline, segs in RUN_FAMILIES:
        name = "o9_5_run_cell_%x" % ord(ch)
        if ch not in m.index:
            tr.add(name, "O9.5", "", "inconclusive", reason="run character %r has no table entry" % ch)
            continue
        allowed = {n: [] for n in NEIGHBOURS}
        for n in inline:
            allowed[n] = [ch]
        R = restrict(m, allowed)
        if ch in NEEDS_PARTNER:
            R.append("(or %s)" % " ".join("(= %s %s)" % (n, m.cname(ch)) for n in inline))
        solid, dashed, other = stroke_map(m, ch)
        ref_s, ref_d = {}, {}
        for (a, b, dsh) in segs:
            for pc in pieces_of(tables.mk_line(P(a), P(b), dsh)):
                (ref_d if dsh else ref_s)[pc] = T
        viol = []
        for pc in set(solid) | set(ref_s):
            viol.append(f_xor(solid.get(pc, F), ref_s.get(pc, F)))
        for pc in set(dashed) | set(ref_d):
            viol.append(f_xor(dashed.get(pc, F), ref_d.get(pc, F)))
        viol.append(f_any(cnd for cnd, fr in other))
        desc = ("run character %r with its two in-line neighbours each blank or %r and all other neighbours blank "
                "(every position of a straight run, incl. its ends and a lone character): the cell emits exactly "
                "its full-cell segment(s) %s, so consecutive cells' segments share an endpoint and O9.1's "
                "induction applies" % (ch, ch, segs))
        tr.decide(name, "O9.5", desc, ch, R + [m.smt_formula(f_any(viol))],
                  "run cell %r does not emit exactly its full-cell segment" % ch)


def q_c12(tr):
    m = tr.model
    eps = 1e-9
    LEFT = ["top_left", "left", "bottom_left"]
    TOP = ["top_left", "top", "top_right"]
    n_frag = 0
    for ch in m.chars:
        beh = m.behaviour(ch)
        beyond, leftc, topc = [], [], []
        for cond, frs in beh:
            for f in frs:
                n_frag += 1
                x0, y0, x1, y1 = frag_extent(f)
                if x0 < -1 - eps or y0 < -2 - eps or x1 > 2 + eps or y1 > 4 + eps:
                    beyond.append(cond)
                if x0 < -eps:
                    leftc.append(cond)
                if y0 < -eps:
                    topc.append(cond)
        name = "o12_2_contained_%x" % ord(ch)
        desc = ("character %r in every neighbourhood: every fragment it emits stays within one cell of its own "
                "cell ([-1,2]x[-2,4] cell units, arcs by their exact SVG geometry), reaches left of its cell only "
                "when a cell of the left column is occupied and above its cell only when a cell of the row above "
                "is occupied; with the canvas one cell beyond the last occupied column/row nothing is clipped" % ch)
        none = lambda nbs: "(and %s)" % " ".join("(= %s NONE)" % n for n in nbs)
        viol = ["false"]
        if beyond:
            viol.append(m.smt_formula(f_any(beyond)))
        if leftc:
            viol.append("(and %s %s)" % (m.smt_formula(f_any(leftc)), none(LEFT)))
        if topc:
            viol.append("(and %s %s)" % (m.smt_formula(f_any(topc)), none(TOP)))
        tr.decide(name, "O12.2", desc, ch, ["(or %s)" % " ".join(viol)],
                  "a fragment of %r leaves the canvas implied by the occupied cells" % ch)
    tr.n_frag = n_frag


QUERIES = {"C03": q_c03, "C09": q_c09, "C12": q_c12}


def run_property(prop, tier, seed):
    t0 = time.time()
    tr = TRun(prop, tier, seed)
    out = {"results": tr.results, "queries": 0, "functions": [], "assumptions": [], "solver_s": 0.0}
    src_root = os.path.join(core.CRATE, "src")
    try:
        tr.model = Model(src_root)
    except tables.Unsupported as e:
        tr.add("T-extract", "T", "table extraction", "inconclusive",
               reason="table source is outside the translatable subset: %s" % e)
        return out
    except Exception as e:  # noqa
        tr.add("T-extract", "T", "table extraction", "inconclusive", reason="translator error: %r" % e)
        return out
    tr.native = Native()
    err = tr.native.build()
    if err:
        tr.add("T-native", "T", "native oracle build", "inconclusive", reason="replay crate does not build: " + err[-300:])
        return out
    logdir = os.path.join(core.VERIF, "logs")
    os.makedirs(logdir, exist_ok=True)
    tr.solver = Solver(tr.model.smt_prelude(), os.path.join(logdir, "%s-%s-tablesmt.smt2" % (prop, tier)))
    try:
        nval = 300 if tier == "quick" else 5000
        checked, bad = validate(tr, nval)
        out["validation"] = {"neighbourhoods_compared_with_real_code": checked, "disagreements": len(bad),
                             "examples": bad[:3]}
        if bad:
            tr.add("T-validate", "T", "translator vs real code on %d neighbourhoods" % checked, "inconclusive",
                   reason="translator and code disagree on %d/%d neighbourhoods, e.g. %r" % (len(bad), checked, bad[0]))
        else:
            QUERIES[prop](tr)
    except Exception as e:  # noqa
        import traceback
        tr.add("T-error", "T", "engine T", "inconclusive", reason="engine error: %s" % traceback.format_exc()[-600:])
    finally:
        tr.solver.close()
        tr.native.close()
    if tr.solver.errors:
        tr.add("T-solver", "T", "solver output", "inconclusive", reason="solver printed: %s" % tr.solver.errors[0])
    cc = tr.solver.cross_check()
    out["cvc5_cross_check"] = cc
    if not cc["ok"]:
        tr.add("T-crosscheck", "T", "z3 vs cvc5", "inconclusive", reason="solvers disagree: " + cc["detail"][:300])
    out["queries"] = tr.nq
    out["solver_s"] = round(tr.solver.time, 3)
    out["chars_in_sort"] = len(tr.model.chars) + 1
    out["neighbourhoods_quantified"] = "(%d)^8" % (len(tr.model.chars) + 1)
    out["functions"] = ["map::ascii_map::ASCII_PROPERTIES (%d entries)" % len(tr.model.t.ascii),
                        "map::unicode_map::UNICODE_FRAGMENTS (%d entries)" % len(tr.model.t.unicode),
                        "Property::line_overlap/line_strongly_overlap/line_weakly_overlap/arcs_to/is (shape-checked)",
                        ] + tr.model.t.interp.funcs_read
    out["assumptions"] = [
        "engine T: closed-segment containment and Arc::new normalisation are re-implemented exactly in rationals "
        "(decided against the real Line::overlaps / Arc::new by the Kani harnesses kovl_line_overlaps_exact and "
        "o14_5_arc_new_normalises, and cross-checked against the real crate on %s random neighbourhoods this run)" % out["validation"]["neighbourhoods_compared_with_real_code"],
        "engine T: a character without table entry, a blank and an off-grid cell all contribute Property::empty() "
        "(property_buffer.rs get(..).unwrap_or(empty)) - read, not solved",
    ]
    if getattr(tr, "circle_validation", None):
        out["circle_catalogue_validation"] = tr.circle_validation
        out["functions"] += ["map::circle_map::CIRCLE_ART_MAP (%d entries, data read from the source)" % tr.circle_validation["entries"],
                             "CircleArt::width/radius/edge_increment_x/center, CIRCLES_SPAN, Span::endorse circle placement (shape-checked, re-stated in SMT)"]
        out["assumptions"].append(
            "engine T (O12.3): CircleArt::width/radius/edge_increment_x/center are one-line arithmetic re-stated in SMT after a "
            "shape check of their source (a changed shape => INCONCLUSIVE); the model's circle of every catalogue entry is compared "
            "with the real crate's rendering of that entry on every run (%d entries, %d disagreements)"
            % (tr.circle_validation["entries"], tr.circle_validation["disagreements"]))
    if prop == "C13":
        # the character tables are loaded (and validated) by the shared set-up but no C13 query reads them
        out["functions"] = [f for f in out["functions"] if "circle_map" in f or "CircleArt" in f]
        out["assumptions"] = [a for a in out["assumptions"] if "O12.3" in a]
    out["wall_s"] = round(time.time() - t0, 1)
    out["native_build_s"] = round(tr.native.build_s, 1)
    return out


def replay_file(path):
    text = open(path).read()
    mc = re.search(r"^circle_entry (\d+) (\d+) (\d+)(?: (\S+))?$", text, re.M)
    if mc:
        return replay_circle(path, text, int(mc.group(1)), int(mc.group(2)), int(mc.group(3)), mc.group(4) or "")
    m = re.search(r"^grid9 (.*)$", text, re.M)
    if not m:
        print("cannot parse")
        return 2
    grid9 = [chr(int(x, 16)) for x in m.group(1).split()]
    nat = Native()
    err = nat.build()
    if err:
        print("INCONCLUSIVE native oracle does not build")
        return 2
    model = Model(os.path.join(core.CRATE, "src"))
    order = ["top_left", "top", "top_right", "left", None, "right", "bottom_left", "bottom", "bottom_right"]
    nb = {o: (grid9[i] if grid9[i] != " " else None) for i, o in enumerate(order) if o}
    print("grid:")
    for r in range(3):
        print("  |%s|" % "".join(grid9[3 * r:3 * r + 3]))
    now = nat.neighbourhood(grid9)
    print("real code, centre cell fragments:", now)
    print("model:", sorted(canon_model_frag(x) for x in model.eval_centre(grid9[4], nb)))
    print(text.split("\n")[1])
    nat.close()
    mrec = re.search(r"^native_fragments (.*)$", text, re.M)
    recorded = mrec.group(1) if mrec else None
    if recorded is not None and recorded.strip() == now.strip():
        mp = re.search(r"counterexample for property (\S+),", text)
        print("the real code still emits the fragments recorded in the counterexample")
        print("VIOLATION property=%s replay=%s" % (mp.group(1) if mp else "?", path))
        return 1
    print("the real code no longer emits the recorded fragments: the counterexample does not reproduce on this tree")
    return 0


# ---------------------------------------------------------------------------
# C14: arrowheads, rounded corners, bullets

TAG_DIR = {"ArrowTop": (0, -2), "ArrowBottom": (0, 2), "ArrowLeft": (-1, 0), "ArrowRight": (1, 0),
           "ArrowTopLeft": (-1, -2), "ArrowTopRight": (1, -2), "ArrowBottomLeft": (-1, 2),
           "ArrowBottomRight": (1, 2)}
# neighbour cell lying in direction (sx, sy) (signs of a direction vector)
NB_BY_SIGN = {(-1, -1): "top_left", (0, -1): "top", (1, -1): "top_right", (-1, 0): "left", (1, 0): "right",
              (-1, 1): "bottom_left", (0, 1): "bottom", (1, 1): "bottom_right"}


def sgn(v):
    return (v > 0) - (v < 0)


def crossp(a, b, p):
    return (b[0] - a[0]) * (p[1] - a[1]) - (b[1] - a[1]) * (p[0] - a[0])


def chars_with_line(model, pred, min_signal=1):
    """characters whose signature has a line (signal >= min_signal) satisfying pred(line)"""
    out = set()
    for ch in model.chars:
        for sg, frs in model.t.signature_of(ch):
            if sg >= min_signal and any(f[0] == "line" and pred(f) for f in frs):
                out.add(ch)
    return out


def nb_offset_pt(nbname):
    ox, oy = tables.NB_OFFSET[nbname]
    return Pt(ox, 2 * oy)


def q_c14_arrows(tr):
    m = tr.model
    for ch in m.chars:
        beh = m.behaviour(ch)
        k = 0
        for ei, (cond, frs) in enumerate(beh):
            for f in frs:
                if f[0] != "polygon":
                    continue
                tags = [t for t in f[3] if t in TAG_DIR]
                if not tags:
                    continue
                k += 1
                name = "o14_1_arrow_%x_%d" % (ord(ch), k)
                D = TAG_DIR[tags[0]]
                pts = list(f[1])
                proj = [p[0] * D[0] + p[1] * D[1] for p in pts]
                tipv = max(proj)
                tips = [p for p, pr in zip(pts, proj) if pr == tipv]
                stubs = [g for g in frs if g[0] == "line"]
                problems = []
                if len(tags) != 1:
                    problems.append("more than one arrow tag")
                if len(tips) != 1:
                    problems.append("no unique tip in the tagged direction %s" % tags[0])
                if not f[2]:
                    problems.append("arrowhead polygon is not filled")
                axis_sets = None
                if stubs and len(tips) == 1:
                    tip = tips[0]
                    ok_stub = None
                    for st in stubs:
                        a, b = st[1], st[2]
                        if crossp(a, b, tip) != 0:
                            continue
                        # tip beyond the stub's end, in direction D
                        pa = a[0] * D[0] + a[1] * D[1]
                        pb = b[0] * D[0] + b[1] * D[1]
                        if not (tipv >= pa and tipv >= pb and (tipv > pa or tipv > pb)):
                            continue
                        # stub runs along D
                        dv = (b[0] - a[0], b[1] - a[1])
                        if dv[0] * D[1] - dv[1] * D[0] != 0:
                            continue
                        ok_stub = st
                    if ok_stub is None:
                        problems.append("tip is not on the axis of (and beyond) the line stub emitted with it")
                    else:
                        a, b = ok_stub[1], ok_stub[2]
                        sides = [sgn(crossp(a, b, p)) for p in pts if p != tip]
                        if not (len(sides) >= 2 and min(sides) < 0 < max(sides) and 0 not in sides):
                            problems.append("base vertices do not straddle the line's axis")
                        # the neighbour the line comes from is the one opposite to D
                        tail_nb = NB_BY_SIGN[(-sgn(D[0]), -sgn(D[1]))]
                        off = nb_offset_pt(tail_nb)
                        # continuity: the stub's tail end q lies on the border shared with the tail-side
                        # neighbour, and that neighbour's line (collinear with the stub) passes through q
                        q = a if (a[0] * D[0] + a[1] * D[1]) <= (b[0] * D[0] + b[1] * D[1]) else b
                        in_tail_cell = off[0] <= q[0] <= off[0] + 1 and off[1] <= q[1] <= off[1] + 2
                        if not in_tail_cell:
                            problems.append("the line stub does not reach the border towards the line it terminates")
                        S = chars_with_line(m, lambda ln: crossp(a - off, b - off, ln[1]) == 0 and crossp(a - off, b - off, ln[2]) == 0
                                            and on_segment(ln[1], ln[2], q - off))
                        axis_sets = (tail_nb, S)
                elif len(tips) == 1:
                    # an arrowhead without line stub (attached to a corner character): the tail-side neighbour must exist
                    tail_nb = NB_BY_SIGN[(-sgn(D[0]), -sgn(D[1]))]
                    axis_sets = (tail_nb, set(m.chars))
                desc = ("character %r, behaviour entry %d: arrowhead polygon %s tagged %s: unique tip in the tagged "
                        "direction, filled, tip on the axis of and beyond the line stub emitted with it, base vertices on "
                        "opposite sides of that axis; and in EVERY neighbourhood in which the entry fires, the neighbour "
                        "on the tail side carries a line along that axis that meets the stub at the shared cell border (so the head continues the line and points away from it)"
                        % (ch, ei, [(float(p[0]), float(p[1])) for p in pts], tags))
                if problems:
                    # geometric defect of a concrete table entry: violation iff the entry is reachable
                    tr.decide(name, "O14.1", desc, ch, [m.smt_formula(cond)], "; ".join(problems),
                              key="arrow %r entry %d: %s" % (ch, ei, "; ".join(problems)))
                    continue
                if cond == T:
                    # an unconditional glyph (Unicode triangle): nothing to quantify, geometry checked above
                    tr.add(name, "O14.1", desc + " [unconditional glyph: geometry only]", "pass", queries=0,
                           note="concrete geometry of the table entry")
                    continue
                nbn, S = axis_sets
                notin = "(and %s)" % " ".join(["true"] + ["(not (= %s %s))" % (nbn, m.cname(c)) for c in sorted(S)])
                tr.decide(name, "O14.1", desc, ch, [m.smt_formula(cond), notin],
                          "arrowhead %s of %r fires although the %s neighbour carries no line along its axis" % (tags[0], ch, nbn),
                          key="arrow %r entry %d fires without a line on its tail side" % (ch, ei))
                res, _ = tr.solver.check([m.smt_formula(cond)], want_model=False)
                tr.nq += 1
                if res != "sat":
                    tr.add(name + "_reach", "O14.1", "vacuity witness: the entry can fire", "inconclusive",
                           reason="arrow entry is unreachable")


def line_through(model, nbname, p, endpoint_only=False):
    """chars whose signature (any signal) has a line with an endpoint at / passing through p
    (p in the centre cell's coordinates; the neighbour is nbname)"""
    off = nb_offset_pt(nbname)
    q = p - off
    if endpoint_only:
        return chars_with_line(model, lambda ln: ln[1] == q or ln[2] == q)
    return chars_with_line(model, lambda ln: on_segment(ln[1], ln[2], q))


def cells_containing(p):
    """neighbour cells (closed rectangles) that contain point p (centre-cell coordinates)"""
    out = []
    for nb in NEIGHBOURS:
        off = nb_offset_pt(nb)
        if off[0] <= p[0] <= off[0] + 1 and off[1] <= p[1] <= off[1] + 2:
            out.append(nb)
    return out


CORNER_CHARS = [".", ",", "'", "`", "’"]


BOX_EDGES = ["-", "|", "~", ":", "!"]
RUN_CHARS = ["-", "|", "/", "\\", "~", ":", "!"]


def q_c14_corners(tr):
    m = tr.model
    R = restrict(m, {"*": [c for c in BOX_EDGES if c in m.index]})
    for ch in CORNER_CHARS:
        if ch not in m.index:
            continue
        beh = m.behaviour(ch)
        k = 0
        for ei, (cond, frs) in enumerate(beh):
            arcs = [f for f in frs if f[0] == "arc"]
            lines_here = [f for f in frs if f[0] == "line"]
            for f in arcs:
                k += 1
                name = "o14_2_corner_%x_%d" % (ord(ch), k)
                s, e = f[1], f[2]
                res, _ = tr.solver.check(R + [m.smt_formula(cond)], want_model=False)
                tr.nq += 1
                if res != "sat":
                    continue  # this arc never appears in an outline of box edges
                desc = ("character %r, behaviour entry %d, arc %s->%s r=%s sweep=%d: in EVERY neighbourhood over {blank, - | ~ : !} "
                        "(outlines of box edges) in which the entry fires, each arc endpoint is the end of a line this cell emits or lies on a line of the neighbour "
                        "whose cell contains it (continuity); and the SVG centre lies on the far side of the chord from the "
                        "corner vertex where the two adjoining line axes meet (the arc bulges outward)"
                        % (ch, ei, tuple(map(float, s)), tuple(map(float, e)), float(f[3]), int(f[4])))
                # --- continuity at both endpoints (solver: for all neighbourhoods with cond)
                viol = []
                axes = []
                for p in (s, e):
                    own = [ln for ln in lines_here if ln[1] == p or ln[2] == p]
                    alts = ["false"]
                    # lines emitted by other entries of the same cell that end at p
                    for cj, fj in beh:
                        if any(g[0] == "line" and (g[1] == p or g[2] == p) for g in fj):
                            alts.append(m.smt_formula(cj))
                    nbs = cells_containing(p)
                    for nb in nbs:
                        S = line_through(m, nb, p)
                        if S:
                            alts.append("(or false %s)" % " ".join("(= %s %s)" % (nb, m.cname(c)) for c in sorted(S)))
                    viol.append("(not (or %s))" % " ".join(alts))
                    # adjoining axis for the centre-side test: own line first, else any neighbour line through p
                    if own:
                        axes.append((own[0][1], own[0][2]))
                    else:
                        cand = None
                        for nb in nbs:
                            off = nb_offset_pt(nb)
                            for c2 in sorted(line_through(m, nb, p)):
                                if m.eval_formula_possible(cond, nb, c2):
                                    for sg, frs2 in m.t.signature_of(c2):
                                        for ln in frs2:
                                            if ln[0] == "line" and on_segment(ln[1], ln[2], p - off):
                                                cand = (ln[1] + off, ln[2] + off)
                                                break
                                        if cand:
                                            break
                                if cand:
                                    break
                            if cand:
                                break
                        axes.append(cand)
                tr.decide(name + "_join", "O14.2", desc, ch,
                          R + [m.smt_formula(cond), "(or %s)" % " ".join(viol)],
                          "an endpoint of the corner arc of %r (entry %d) meets no line" % (ch, ei),
                          key="corner %r entry %d: arc endpoint meets no line" % (ch, ei))
                # --- bulge direction (concrete geometry; violation iff the entry is reachable)
                if axes[0] and axes[1]:
                    (a1, b1), (a2, b2) = axes
                    d1 = (b1[0] - a1[0], b1[1] - a1[1])
                    d2 = (b2[0] - a2[0], b2[1] - a2[1])
                    den = d1[0] * d2[1] - d1[1] * d2[0]
                    if den != 0:
                        t = ((a2[0] - a1[0]) * d2[1] - (a2[1] - a1[1]) * d2[0]) / den
                        V = (a1[0] + t * d1[0], a1[1] + t * d1[1])
                        (cx, cy), r = arc_centre(f)
                        midx, midy = float(s[0] + e[0]) / 2, float(s[1] + e[1]) / 2
                        dotp = (float(V[0]) - midx) * (cx - midx) + (float(V[1]) - midy) * (cy - midy)
                        on_chord = abs(float(crossp(s, e, Pt(V[0], V[1])))) < 1e-12
                        if not on_chord and dotp >= -1e-12:
                            tr.decide(name + "_bulge", "O14.2", desc, ch, R + [m.smt_formula(cond)],
                                      "corner arc of %r (entry %d) has its centre on the corner's outer side: it bulges inward" % (ch, ei),
                                      key="corner %r entry %d: arc bulges inward" % (ch, ei))
                        else:
                            tr.add(name + "_bulge", "O14.2", desc, "pass", queries=0, note="concrete geometry of the table entry")


def q_c14_bullets(tr):
    m = tr.model
    mid = Pt(Fraction(1, 2), 1)
    kinds = {"*": "filled", "o": "open", "O": "bigopen"}
    for ch, kind in kinds.items():
        if ch not in m.index:
            tr.add("o14_3_bullet_%x" % ord(ch), "O14.3", "", "inconclusive", reason="bullet %r has no entry" % ch)
            continue
        beh = m.behaviour(ch)
        circle_conds, line_conds, bad_geom, other = [], [], [], []
        for cond, frs in beh:
            for f in frs:
                if f[0] == "circle":
                    circle_conds.append(cond)
                    r = float(f[2])
                    ok = f[1] == mid and ((kind == "filled" and f[3]) or
                                          (kind == "open" and not f[3] and r < 0.5) or
                                          (kind == "bigopen" and not f[3] and 0.5 <= r <= 0.75))
                    if not ok:
                        bad_geom.append(cond)
                elif f[0] == "line":
                    line_conds.append(cond)
                    a, b = f[1], f[2]
                    # the stub points at the bullet centre and ends close enough to be merged with it
                    coll = crossp(a, b, mid) == 0
                    near = min(math.hypot(float(p[0] - mid[0]), float(p[1] - mid[1])) for p in (a, b))
                    dx, dy = abs(float(b[0] - a[0])), abs(float(b[1] - a[1]))
                    thr = (1.0 if dy == 0 else 2.0 if dx == 0 else math.hypot(1.0, 2.0)) * 0.75
                    if not (coll and near <= thr + 1e-9):
                        bad_geom.append(cond)
                else:
                    other.append(cond)
        pointing = []
        for nb in NEIGHBOURS:
            off = nb_offset_pt(nb)
            S = chars_with_line(m, lambda ln: crossp(ln[1] + off, ln[2] + off, mid) == 0)
            pointing.append("(or false %s)" % " ".join("(= %s %s)" % (nb, m.cname(c)) for c in sorted(S)))
        base = "o14_3_bullet_%x" % ord(ch)
        d = "bullet %r (%s), neighbours over {blank/label, - | / \\ ~ : !}: " % (ch, kind)
        R = restrict(m, {"*": [c for c in RUN_CHARS if c in m.index]})
        tr.decide(base + "_geom", "O14.3", d + "every circle it can emit is centred on the cell centre m with the documented kind "
                  "(filled / open r<0.5 / big open 0.5<=r<=0.75) and every line stub it can emit is collinear with m and ends within "
                  "merge distance of m", ch, [m.smt_formula(f_any(bad_geom))],
                  "bullet %r emits a circle/stub with wrong geometry" % ch)
        tr.decide(base + "_stub_implies_circle", "O14.3", d + "in EVERY neighbourhood: a connecting stub is emitted only together with the circle",
                  ch, R + [m.smt_formula(f_any(line_conds)), m.smt_formula(tables.f_not(f_any(circle_conds)))],
                  "bullet %r draws a stub without its circle" % ch)
        tr.decide(base + "_circle_needs_line", "O14.3", d + "in EVERY neighbourhood: the circle is emitted only if some neighbour carries a "
                  "line whose axis passes through m (an unattached bullet stays text)", ch,
                  R + [m.smt_formula(f_any(circle_conds)), "(not (or %s))" % " ".join(pointing)],
                  "bullet %r becomes a circle with no line pointing at it" % ch)
        # attached to a plain run character in any of the 8 directions => circle
        runs = {"left": "-", "right": "-", "top": "|", "bottom": "|", "top_left": "\\", "bottom_right": "\\",
                "top_right": "/", "bottom_left": "/"}
        att = "(or %s)" % " ".join("(= %s %s)" % (nb, m.cname(c)) for nb, c in runs.items())
        tr.decide(base + "_attached_is_circle", "O14.3", d + "in EVERY neighbourhood in which a plain run character (- | / \\) of the "
                  "matching direction is adjacent, the circle is emitted (so the bullet is not shown as text)", ch,
                  R + [att, m.smt_formula(tables.f_not(f_any(circle_conds)))],
                  "bullet %r attached to a line is not drawn as a circle" % ch)


def q_c14(tr):
    q_c14_arrows(tr)
    q_c14_corners(tr)
    q_c14_bullets(tr)


QUERIES["C14"] = q_c14


def q_c14_corner_completeness(tr):
    """every corner character closes the outline in each of its two orientations: with a horizontal
    edge on one side and a vertical edge (or the matching corner of a one-row-high box) above/below,
    the cell emits fragments that end at BOTH border junction points"""
    m = tr.model
    cg = m.t.interp.cellgrid_fns
    P = lambda n: m.t.interp.call_fn(cg, n, [])
    c, k, o, w = P("c"), P("k"), P("o"), P("w")
    H = [x for x in ["-", "~"] if x in m.index]
    # (corner char, side of the horizontal edge) -> characters that may continue the outline vertically.
    # Orientations per spec.md / README: '.' and ',' are top corners (',' top-left only), "'" and '`' are
    # bottom corners ('`' bottom-left only); a one-row-high rounded box pairs '.' over "'" and ',' over '`'.
    VERT = ["|", ":", "!"]
    styles = [
        (".", "top", "right", VERT + ["'", "`"]),   # top-left corner: edge to the right, outline continues below
        (".", "top", "left", VERT + ["'"]),         # top-right corner
        (",", "top", "right", VERT + ["`", "'"]),   # top-left corner
        ("'", "bottom", "right", VERT + ["."]),     # bottom-left corner (',' pairs with '`', not with "'")
        ("'", "bottom", "left", VERT + ["."]),      # bottom-right corner
        ("`", "bottom", "right", VERT + [".", ","]),  # bottom-left corner
        ("’", "bottom", "right", VERT + ["."]),
        ("’", "bottom", "left", VERT + ["."]),
    ]
    for ch, kind, hside, vchars in styles:
        if ch not in m.index:
            continue
        beh = m.behaviour(ch)
        if True:
            vside = "bottom" if kind == "top" else "top"
            jh = k if hside == "left" else o
            jv = w if vside == "bottom" else c
            allowed = {n: [] for n in NEIGHBOURS}
            allowed[hside] = H
            allowed[vside] = [x for x in vchars if x in m.index]
            R = restrict(m, allowed)
            R.append("(not (= %s NONE))" % hside)
            R.append("(not (= %s NONE))" % vside)

            def reach(p):
                return f_any(cond for cond, frs in beh
                             if any(f[0] in ("line", "arc") and (f[1] == p or f[2] == p) for f in frs))
            viol = tables.f_or(tables.f_not(reach(jh)), tables.f_not(reach(jv)))
            name = "o14_2_corner_closes_%x_%s" % (ord(ch), hside)
            desc = ("corner %r as a %s-%s corner: %s neighbour in {- ~}, %s neighbour in %s, every other neighbour blank "
                    "(all box heights from one row on): the cell emits a line or arc ending at the junction with the "
                    "horizontal edge AND one ending at the junction with the vertical edge, so the outline is closed"
                    % (ch, kind, hside, hside, vside, allowed[vside]))
            tr.decide(name, "O14.2", desc, ch, R + [m.smt_formula(viol)],
                      "corner %r leaves the outline open on its %s/%s side" % (ch, hside, vside))


_q_c14_prev = q_c14


def q_c14(tr):
    _q_c14_prev(tr)
    q_c14_corner_completeness(tr)


QUERIES["C14"] = q_c14


# ---------------------------------------------------------------------------
# C05: the cells of a box border emit exactly the border strokes (the link from characters to the
# four lines that the Kani harnesses o5_1/o5_2 start from)

def q_c05(tr):
    m = tr.model
    cg = m.t.interp.cellgrid_fns
    P = lambda n: m.t.interp.call_fn(cg, n, [])
    c, k, mm, o, w = P("c"), P("k"), P("m"), P("o"), P("w")
    have = lambda xs: [x for x in xs if x in m.index]
    H_ASCII, V_ASCII = have(["-", "~"]), have(["|", ":", "!"])
    H_UNI, V_UNI = have(["─", "┄"]), have(["│", "┊", "┆"])
    SHARP = have(["+"])
    ROUND_T, ROUND_B = have([".", ","]), have(["'", "`"])
    UNI_C = have(["┌", "┐", "└", "┘"])

    def pieces(a, b):
        return pieces_of(tables.mk_line(a, b, False))

    def exact(name, desc, centre, R, want_solid, want_dashed, what, either=False):
        solid, dashed, other = stroke_map(m, centre)
        viol = []
        if either:   # dashedness of the stub is not prescribed: compare the union
            for pc in set(solid) | set(dashed) | set(want_solid):
                got = tables.f_or(solid.get(pc, F), dashed.get(pc, F))
                viol.append(f_xor(got, T if pc in want_solid else F))
        else:
            for pc in set(solid) | set(want_solid):
                viol.append(f_xor(solid.get(pc, F), T if pc in want_solid else F))
            for pc in set(dashed) | set(want_dashed):
                viol.append(f_xor(dashed.get(pc, F), T if pc in want_dashed else F))
        viol.append(f_any(cnd for cnd, fr in other))
        tr.decide(name, "O5.T", desc, centre, R + [m.smt_formula(f_any(viol))], what)
        res, _ = tr.solver.check(R, want_model=False)
        tr.nq += 1
        if res != "sat":
            tr.add(name + "_witness", "O5.T", "vacuity witness", "inconclusive", reason="role unreachable")

    # --- edge cells -------------------------------------------------------
    def edge_queries(chars, inline, ends, across_same, dashed_of, seg, fam, perp):
        """chars: edge characters; inline: the two in-line neighbours; ends: what may continue the edge
        (edge characters of the family and corners); the row/column on the outer side is blank, the inner
        side is blank or a label; diagonal cells may hold the perpendicular edge (cells next to a corner)"""
        for ch in chars:
            for inner in across_same:      # which side is the inside of the box
                outer = [s for s in across_same if s != inner][0]
                allowed = {n: [] for n in NEIGHBOURS}
                for n in inline:
                    allowed[n] = ends
                # the two diagonal cells on the inner side hold the perpendicular edge when this cell is
                # next to a corner
                for n in NEIGHBOURS:
                    if "_" in n and inner in n.split("_"):
                        allowed[n] = perp
                R = restrict(m, allowed)
                for n in inline:
                    R.append("(not (= %s NONE))" % n)
                if ch in NEEDS_PARTNER:
                    R.append("(or %s)" % " ".join("(= %s %s)" % (n, m.cname(ch)) for n in inline))
                d = dashed_of(ch)
                ps = set(pieces(*seg))
                name = "o5_t_edge_%x_in_%s" % (ord(ch), inner)
                desc = ("%s edge character %r of a box whose inside is towards %s: both in-line neighbours in %s "
                        "(edge characters or corners), the inner diagonal cells blank, label or a perpendicular edge character, "
                        "every other neighbour blank or a plain label: the cell emits "
                        "exactly its full-cell %s segment and nothing else" % (fam, ch, inner, ends, "dashed" if d else "solid"))
                exact(name, desc, ch, R, set() if d else ps, ps if d else set(),
                      "border cell %r does not emit exactly its edge segment" % ch)

    dash = lambda ch: ch in ("~", ":", "!", "┄", "┊", "┆")
    edge_queries(H_ASCII, ("left", "right"), H_ASCII + SHARP + ROUND_T + ROUND_B, ("top", "bottom"), dash, (k, o), "horizontal", V_ASCII)
    edge_queries(V_ASCII, ("top", "bottom"), V_ASCII + SHARP + ROUND_T + ROUND_B, ("left", "right"), dash, (c, w), "vertical", H_ASCII)
    edge_queries(H_UNI, ("left", "right"), H_UNI + UNI_C, ("top", "bottom"), dash, (k, o), "horizontal", V_UNI)
    edge_queries(V_UNI, ("top", "bottom"), V_UNI + UNI_C, ("left", "right"), dash, (c, w), "vertical", H_UNI)

    # --- sharp corners ----------------------------------------------------
    roles = {"tl": ("right", "bottom"), "tr": ("left", "bottom"), "bl": ("right", "top"), "br": ("left", "top")}
    stub = {"left": (k, mm), "right": (mm, o), "top": (c, mm), "bottom": (mm, w)}
    for ch in SHARP:
        for role, (hs, vs) in roles.items():
            allowed = {n: [] for n in NEIGHBOURS}
            allowed[hs] = H_ASCII + SHARP
            allowed[vs] = V_ASCII + SHARP
            R = restrict(m, allowed)
            R += ["(not (= %s NONE))" % hs, "(not (= %s NONE))" % vs]
            want = set(pieces(*stub[hs])) | set(pieces(*stub[vs]))
            exact("o5_t_corner_%x_%s" % (ord(ch), role),
                  "sharp corner %r in role %s: %s neighbour in %s, %s neighbour in %s, every other neighbour blank or a "
                  "plain label (all box sizes from 2x2 cells): the cell strokes exactly the two half-segments from its "
                  "centre to the two edges" % (ch, role, hs, allowed[hs], vs, allowed[vs]),
                  ch, R, want, set(), "corner %r does not emit exactly its two half-segments" % ch, either=True)
    uni_role = {"┌": "tl", "┐": "tr", "└": "bl", "┘": "br"}
    for ch in UNI_C:
        hs, vs = roles[uni_role[ch]]
        allowed = {n: [] for n in NEIGHBOURS}
        allowed[hs] = H_UNI + UNI_C
        allowed[vs] = V_UNI + UNI_C
        R = restrict(m, allowed)
        R += ["(not (= %s NONE))" % hs, "(not (= %s NONE))" % vs]
        want = set(pieces(*stub[hs])) | set(pieces(*stub[vs]))
        exact("o5_t_corner_%x_%s" % (ord(ch), uni_role[ch]),
              "box-drawing corner %r: %s neighbour in %s, %s neighbour in %s, the rest blank or labels: exactly the two "
              "half-segments towards the edges" % (ch, hs, allowed[hs], vs, allowed[vs]),
              ch, R, want, set(), "corner %r does not emit exactly its two half-segments" % ch, either=True)


    q_rounded_unicode(tr, "O5.T", "o5_t_rounded")


def q_rounded_unicode(tr, obl, prefix):
    """rounded box-drawing corners (shared by C05's O5.T and C14's O14.2)"""
    m = tr.model
    cg = m.t.interp.cellgrid_fns
    P = lambda n: m.t.interp.call_fn(cg, n, [])
    c, k, mm, o, w = P("c"), P("k"), P("m"), P("o"), P("w")
    have = lambda xs: [x for x in xs if x in m.index]
    H_UNI, V_UNI = have(["─", "┄"]), have(["│", "┊", "┆"])
    UNI_C = have(["┌", "┐", "└", "┘"])
    roles = {"tl": ("right", "bottom"), "tr": ("left", "bottom"), "bl": ("right", "top"), "br": ("left", "top")}
    # --- rounded box-drawing corners: close the outline and bulge outward -------------------
    rr = {"╭": "tl", "╮": "tr", "╰": "bl", "╯": "br"}
    URC = have(list(rr))
    junction = {"left": k, "right": o, "top": c, "bottom": w}
    for ch in URC:
        hs, vs = roles[rr[ch]]
        allowed = {n: [] for n in NEIGHBOURS}
        allowed[hs] = H_UNI + UNI_C + URC
        allowed[vs] = V_UNI + UNI_C + URC
        R = restrict(m, allowed)
        R += ["(not (= %s NONE))" % hs, "(not (= %s NONE))" % vs]
        beh = m.behaviour(ch)

        def reach(p):
            return f_any(cond for cond, frs in beh
                         if any(f[0] in ("line", "arc") and (f[1] == p or f[2] == p) for f in frs))
        # every arc this cell can emit in the role must have its centre on the inner side of the corner:
        # on the far side of its chord from the sharp-corner vertex (the cell centre m)
        inward = []
        extra = []
        for cond, frs in beh:
            for f in frs:
                if f[0] == "arc":
                    (cx, cy), r = arc_centre(f)
                    midx, midy = float(f[1][0] + f[2][0]) / 2, float(f[1][1] + f[2][1]) / 2
                    dotp = (float(mm[0]) - midx) * (cx - midx) + (float(mm[1]) - midy) * (cy - midy)
                    if dotp >= -1e-12:
                        inward.append(cond)
                elif f[0] != "line":
                    extra.append(cond)
        viol = f_any([tables.f_not(reach(junction[hs])), tables.f_not(reach(junction[vs]))] + inward + extra)
        name = prefix + "_%x_%s" % (ord(ch), rr[ch])
        tr.decide(name, obl,
                  "rounded box-drawing corner %r in role %s: %s neighbour in %s, %s neighbour in %s, the rest blank or labels: "
                  "the cell emits a line or arc ending at the junction with the horizontal edge and one ending at the junction "
                  "with the vertical edge (closed outline), every arc has its SVG centre on the inner side of the corner "
                  "(bulges outward), and nothing but lines and arcs is emitted"
                  % (ch, rr[ch], hs, allowed[hs], vs, allowed[vs]),
                  ch, R + [m.smt_formula(viol)],
                  "rounded corner %r leaves the outline open or bulges inward" % ch)
        res, _ = tr.solver.check(R, want_model=False)
        tr.nq += 1
        if res != "sat":
            tr.add(name + "_witness", obl, "vacuity witness", "inconclusive", reason="role unreachable")


QUERIES["C05"] = q_c05
PROPS.add("C05")


# ---------------------------------------------------------------------------
# C12 (circle catalogue): every catalogue circle, placed anywhere, lies inside the canvas its own
# drawing implies.  The catalogue (map/circle_map.rs CIRCLE_ART_MAP) is behind once_cell::Lazy and
# therefore out of Kani's reach; its data is read from the source on every run and the entry index
# and the placement are symbolic.

CIRCLE_SHAPES = [
    ("CircleArt::width", r"fn width\(&self\) -> f32 \{\s*let cb = CellBuffer::from\(self\.ascii_art\);\s*let \(lo, hi\) = cb\.bounds\(\)\.expect\(\"circle must have bounds\"\);\s*match self\.start_edge \{\s*Horizontal::LeftEdge => \(hi\.x - lo\.x\) as f32 \+ 1\.0,\s*Horizontal::Half => \(hi\.x - lo\.x\) as f32,\s*\}\s*\}"),
    ("CircleArt::center", r"fn center\(&self\) -> Point \{\s*let center_x = self\.radius\(\) \+ self\.edge_increment_x\(\);\s*let center_y = self\.offset_center_y \* 2\.0;\s*Point::new\(center_x, center_y\)\s*\}"),
    ("CircleArt::edge_increment_x", r"fn edge_increment_x\(&self\) -> f32 \{\s*match self\.start_edge \{\s*Horizontal::LeftEdge => 0\.0,\s*Horizontal::Half => 0\.5,\s*\}\s*\}"),
    ("CircleArt::radius", r"fn radius\(&self\) -> f32 \{\s*self\.width\(\) / 2\.0\s*\}"),
    ("CIRCLES_SPAN", r"Circle::new\(circle_art\.center\(\), circle_art\.radius\(\), false\),\s*span,"),
    ("CIRCLE_MAP", r"CircleArt \{\s*ascii_art: \*art,\s*start_edge: \*edge_case,\s*offset_center_x: \*offset_center_x,\s*offset_center_y: \*offset_center_y,\s*\}"),
]


def load_circle_catalogue(src_root):
    src = open(os.path.join(src_root, "map", "circle_map.rs")).read()
    for nm, pat in CIRCLE_SHAPES:
        if not re.search(pat, src):
            raise tables.Unsupported("circle_map.rs: %s changed shape" % nm)
    span_src = open(os.path.join(src_root, "buffer", "cell_buffer", "span.rs")).read()
    if not re.search(r"let \(top_left, _\) = self\.bounds\(\)\.expect\(\"must have bounds\"\);\s*let un_endorsed_span: Span = "
                     r"if let Some\(\(circle, un_endorsed_span\)\) =\s*circle_map::endorse_circle_span\(&self\)\s*\{\s*"
                     r"let circle = circle\.absolute_position\(top_left\);", span_src):
        raise tables.Unsupported("span.rs: placement of an endorsed circle changed shape")
    i = src.index("static CIRCLE_ART_MAP")
    j = src.index("});", i)
    body = src[i:j]
    ents = re.findall(r'\(\s*r#"(.*?)"#,\s*Horizontal::(\w+),\s*([\d.]+),\s*([\d.]+),\s*Cell::new\((\d+),\s*(\d+)\),?\s*\)', body, re.S)
    if not ents or len(ents) != body.count('r#"'):
        raise tables.Unsupported("CIRCLE_ART_MAP: %d of %d entries parsed" % (len(ents), body.count('r#"')))
    out = []
    for art, edge, ox, oy, _a, _b in ents:
        if edge not in ("LeftEdge", "Half"):
            raise tables.Unsupported("Horizontal::%s" % edge)
        lines = art.split("\n")
        cells = [(x, y) for y, l in enumerate(lines) for x, ch in enumerate(l) if not ch.isspace()]
        lo, hi = min(x for x, y in cells), max(x for x, y in cells)
        ylo, yhi = min(y for x, y in cells), max(y for x, y in cells)
        rows = [l[lo:hi + 1].rstrip() for l in lines[ylo:yhi + 1]]
        out.append({"art": rows, "edge": edge, "ox": Fraction(ox), "oy": Fraction(oy),
                    "w": hi - lo, "cols": hi - lo + 1, "rows": yhi - ylo + 1})
    return out


def circle_model(e):
    width = Fraction(e["w"]) + (1 if e["edge"] == "LeftEdge" else 0)
    r = width / 2
    cx = r + (0 if e["edge"] == "LeftEdge" else Fraction(1, 2))
    return cx, e["oy"] * 2, r


def native_circle(tr, e, k, n):
    text = "\n" * n + "\n".join(" " * k + row for row in e["art"])
    tr.native.p.stdin.write("S 1 " + text.replace("\n", "\\n") + "\n")
    tr.native.p.stdin.flush()
    svg = tr.native.p.stdout.readline()
    body = re.sub(r"<defs>.*?</defs>", "", svg, flags=re.S)   # marker definitions contain circles of their own
    circles = re.findall(r'<circle[^>]*?cx="([-\d.]+)"[^>]*?cy="([-\d.]+)"[^>]*?r="([-\d.]+)"', body)
    m = re.search(r'<svg[^>]*?height="([-\d.]+)"[^>]*?width="([-\d.]+)"', svg) or None
    if m:
        h, w = float(m.group(1)), float(m.group(2))
    else:
        m = re.search(r'<svg[^>]*?width="([-\d.]+)"[^>]*?height="([-\d.]+)"', svg)
        if not m:
            return None
        w, h = float(m.group(1)), float(m.group(2))
    return [tuple(float(v) for v in c) for c in circles], w, h, text


def q_c12_circles(tr):
    try:
        cat = load_circle_catalogue(os.path.join(core.CRATE, "src"))
    except tables.Unsupported as e:
        tr.add("o12_3_circle_catalogue", "O12.3", "circle catalogue", "inconclusive",
               reason="circle catalogue is outside the translatable subset: %s" % e)
        return
    # translator validation: every entry, rendered by the real crate at the origin, gives the model's circle
    bad = []
    for idx, e in enumerate(cat):
        got = native_circle(tr, e, 0, 0)
        cx, cy, r = circle_model(e)
        want = (float(cx), float(cy), float(r))
        if not got or len(got[0]) != 1 or any(abs(a - b) > 1e-4 for a, b in zip(got[0][0], want)):
            bad.append((idx, want, got and got[0]))
    tr.circle_validation = {"entries": len(cat), "disagreements": len(bad)}
    if bad:
        tr.add("o12_3_circle_catalogue", "O12.3", "circle catalogue", "inconclusive",
               reason="catalogue model and real crate disagree on entry %d: model %r, rendered %r" % bad[0])
        return
    N = len(cat)
    ite = lambda f: "".join("(ite (= ci %d) %s " % (i, f(e)) for i, e in enumerate(cat[:-1])) + f(cat[-1]) + ")" * (N - 1)
    num = lambda q: "(/ %d.0 %d.0)" % (Fraction(q).numerator, Fraction(q).denominator)
    decl = ["(declare-const ci Int)", "(declare-const pk Int)", "(declare-const pn Int)",
            "(define-fun cW () Real %s)" % ite(lambda e: num(e["w"])),
            "(define-fun cEdge () Bool %s)" % ite(lambda e: "true" if e["edge"] == "LeftEdge" else "false"),
            "(define-fun cOY () Real %s)" % ite(lambda e: num(e["oy"])),
            "(define-fun cCols () Real %s)" % ite(lambda e: num(e["cols"])),
            "(define-fun cRows () Real %s)" % ite(lambda e: num(e["rows"])),
            # CircleArt::width / radius / edge_increment_x / center, Circle::absolute_position(top_left)
            "(define-fun cWidth () Real (ite cEdge (+ cW 1.0) cW))",
            "(define-fun cR () Real (/ cWidth 2.0))",
            "(define-fun cX () Real (+ (to_real pk) cR (ite cEdge 0.0 0.5)))",
            "(define-fun cY () Real (+ (* 2.0 (to_real pn)) (* cOY 2.0)))",
            # canvas: one cell beyond the last occupied column / row (cell = 1 x 2 units)
            "(define-fun canW () Real (+ (to_real pk) cCols 1.0))",
            "(define-fun canH () Real (* 2.0 (+ (to_real pn) cRows 1.0)))"]
    rng = "(and (<= 0 ci) (< ci %d) (<= 0 pk) (<= 0 pn))" % N
    viol = "(or (< (- cX cR) 0.0) (< (- cY cR) 0.0) (> (+ cX cR) canW) (> (+ cY cR) canH))"
    s = tr.solver
    t0 = time.time()
    block = ["(push 1)"] + decl + ["(assert %s)" % rng, "(assert %s)" % viol, "(check-sat)"]
    s.script.extend(block)
    s._send("\n".join(block))
    res = s._readline()
    while res.startswith("(error"):
        res = s._readline()
    vals = {}
    if res == "sat":
        s._send("(get-value (ci pk pn))")
        txt, depth = "", 0
        while True:
            ln = s.p.stdout.readline()
            txt += ln
            depth += ln.count("(") - ln.count(")")
            if depth <= 0 and txt.strip():
                break
        vals = {a: int(b) for a, b in re.findall(r"\((\w+) (\d+)\)", txt)}
    # vacuity witness: the range constraint alone is satisfiable
    s._send("(pop 1)")
    s.script.append("(pop 1)")
    s.time += time.time() - t0
    s.results.append(res)
    tr.nq += 1
    name = "o12_3_circle_catalogue"
    desc = ("every entry of the circle catalogue (%d entries read from CIRCLE_ART_MAP, entry index symbolic), its "
            "drawing placed with its top-left occupied cell at any column k >= 0 and row n >= 0 (symbolic, unbounded): "
            "the circle Circle::new(center(), radius()).absolute_position(top_left) lies inside the canvas that is one "
            "cell wider and taller than the drawing's last occupied column and row, and right of / below 0" % N)
    if res == "unsat":
        tr.add(name, "O12.3", desc, "pass", solver_s=round(time.time() - t0, 4), queries=1)
        return
    if res != "sat" or "ci" not in vals:
        tr.add(name, "O12.3", desc, "inconclusive", reason="solver answered %s" % res, queries=1)
        return
    e = cat[vals["ci"]]
    k, n = min(vals.get("pk", 0), 40), min(vals.get("pn", 0), 40)
    got = native_circle(tr, e, k, n)
    rep = False
    if got and len(got[0]) == 1:
        (cx, cy, r), w, h, text = got[0][0], got[1], got[2], got[3]
        rep = cx - r < -1e-4 or cy - r < -1e-4 or cx + r > w + 1e-4 or cy + r > h + 1e-4
    os.makedirs(os.path.join(core.VERIF, "replays"), exist_ok=True)
    path = os.path.join(core.VERIF, "replays", "%s-T-%s.txt" % (tr.prop, name))
    with open(path, "w") as f:
        f.write("# tablesmt counterexample for property %s, obligation O12.3 (%s)\n" % (tr.prop, name))
        f.write("# violated: catalogue circle %d placed at column %d, row %d leaves the canvas\n" % (vals["ci"], k, n))
        f.write("circle_entry %d %d %d\n" % (vals["ci"], k, n))
        for row in e["art"]:
            f.write("#   |%s|\n" % row)
        f.write("native_render %r\n" % (got and (got[0], got[1], got[2]),))
        f.write("reproduced %s\n" % rep)
    tr.add(name, "O12.3", desc, "fail" if rep else "inconclusive",
           reason="" if rep else "counterexample does not reproduce on the real crate",
           key="a catalogue circle leaves the canvas", reproduced=rep, replay=path,
           counterexample=e["art"], queries=1, solver_s=round(time.time() - t0, 4))


_q_c12_prev = q_c12


def q_c12_all(tr):
    _q_c12_prev(tr)
    q_c12_circles(tr)


QUERIES["C12"] = q_c12_all


def replay_circle(path, text, ci, k, n, qname=""):
    class _TR:
        pass
    tr = _TR()
    tr.native = Native()
    err = tr.native.build()
    if err:
        print("INCONCLUSIVE native oracle does not build")
        return 2
    try:
        cat = load_circle_catalogue(os.path.join(core.CRATE, "src"))
    except tables.Unsupported as e:
        print("INCONCLUSIVE circle catalogue not readable: %s" % e)
        return 2
    if ci >= len(cat):
        print("catalogue entry %d no longer exists" % ci)
        return 0
    e = cat[ci]
    got = native_circle(tr, e, k, n)
    tr.native.close()
    print("catalogue entry %d at column %d, row %d:" % (ci, k, n))
    for row in e["art"]:
        print("  |%s|" % (" " * k + row))
    print("real code renders (scale 1): circles %r, canvas %r x %r" % (got and got[0], got and got[1], got and got[2]))
    if got and len(got[0]) == 1:
        (cx, cy, r), w, h = got[0][0], got[1], got[2]
        if qname.startswith("o13_1"):
            bad, msg = judge_extent(e, k, n, got), "the circle's horizontal extent differs from the drawing's extent"
        elif qname.startswith("o13_2"):
            bad, msg = judge_close(e, k, n, got), "a cell of the drawing lies farther than one cell from the circle"
        else:
            bad = cx - r < -1e-4 or cy - r < -1e-4 or cx + r > w + 1e-4 or cy + r > h + 1e-4
            msg = "the circle leaves the canvas"
        if bad:
            mp = re.search(r"counterexample for property (\S+),", text)
            print(msg)
            print("VIOLATION property=%s replay=%s" % (mp.group(1) if mp else "?", path))
            return 1
    print("the real rendering does not show the violation: the counterexample does not reproduce on this tree")
    return 0


# ---------------------------------------------------------------------------
# C13 (geometry half): the catalogue circle matches its drawing

def _circle_decls(cat, with_cells):
    N = len(cat)
    num = lambda q: "(/ %d.0 %d.0)" % (Fraction(q).numerator, Fraction(q).denominator)
    ite = lambda f: "".join("(ite (= ci %d) %s " % (i, f(e)) for i, e in enumerate(cat[:-1])) + f(cat[-1]) + ")" * (N - 1)
    slash = lambda e: any(row[:1] in ("/", "\\", "╱", "╲") for row in e["art"])
    decl = ["(declare-const pk Int)", "(declare-const pn Int)"]
    if with_cells:
        cells = []
        for i, e in enumerate(cat):
            for y, row in enumerate(e["art"]):
                for x, ch in enumerate(row):
                    if not ch.isspace():
                        cells.append((i, x, y))
        G = len(cells)
        chain = lambda f: "".join("(ite (= gi %d) %s " % (g, f(c)) for g, c in enumerate(cells[:-1])) + f(cells[-1]) + ")" * (G - 1)
        decl += ["(declare-const gi Int)",
                 "(define-fun ci () Int %s)" % chain(lambda c: str(c[0])),
                 "(define-fun gx () Real %s)" % chain(lambda c: num(Fraction(2 * c[1] + 1, 2))),   # cell centre, cell = 1 x 2 units
                 "(define-fun gy () Real %s)" % chain(lambda c: num(2 * c[2] + 1))]
        rng = "(and (<= 0 gi) (< gi %d) (<= 0 pk) (<= 0 pn))" % G
    else:
        decl += ["(declare-const ci Int)"]
        rng = "(and (<= 0 ci) (< ci %d) (<= 0 pk) (<= 0 pn))" % N
    decl += ["(define-fun cW () Real %s)" % ite(lambda e: num(e["w"])),
             "(define-fun cEdge () Bool %s)" % ite(lambda e: "true" if e["edge"] == "LeftEdge" else "false"),
             "(define-fun cSlash () Bool %s)" % ite(lambda e: "true" if slash(e) else "false"),
             "(define-fun cOY () Real %s)" % ite(lambda e: num(e["oy"])),
             "(define-fun cCols () Real %s)" % ite(lambda e: num(e["cols"])),
             "(define-fun cRows () Real %s)" % ite(lambda e: num(e["rows"])),
             "(define-fun cWidth () Real (ite cEdge (+ cW 1.0) cW))",
             "(define-fun cR () Real (/ cWidth 2.0))",
             "(define-fun cX () Real (+ (to_real pk) cR (ite cEdge 0.0 0.5)))",
             "(define-fun cY () Real (+ (* 2.0 (to_real pn)) (* cOY 2.0)))"]
    return decl, rng


def _circle_query(tr, name, obl, desc, cat, with_cells, viol, what, judge, base=0):
    """one (check-sat) over the catalogue; judge(entry, k, n, native) -> bool: the real rendering shows the violation"""
    decl, rng = _circle_decls(cat, with_cells)
    s = tr.solver
    t0 = time.time()
    block = ["(push 1)"] + decl + ["(assert %s)" % rng, "(assert %s)" % viol, "(check-sat)"]
    s.script.extend(block)
    s._send("\n".join(block))
    res = s._readline()
    while res.startswith("(error"):
        res = s._readline()
    vals = {}
    if res == "sat":
        s._send("(get-value (ci pk pn))")
        txt, depth = "", 0
        while True:
            ln = s.p.stdout.readline()
            txt += ln
            depth += ln.count("(") - ln.count(")")
            if depth <= 0 and txt.strip():
                break
        vals = {a: int(b) for a, b in re.findall(r"\((\w+) (\d+)\)", txt)}
    s._send("(pop 1)")
    s.script.append("(pop 1)")
    s.time += time.time() - t0
    s.results.append(res)
    tr.nq += 1
    if res == "unsat":
        # vacuity witness: the ranges alone are satisfiable
        block = ["(push 1)"] + decl + ["(assert %s)" % rng, "(check-sat)"]
        s.script.extend(block)
        s._send("\n".join(block))
        r2 = s._readline()
        s._send("(pop 1)")
        s.script.append("(pop 1)")
        s.results.append(r2)
        tr.nq += 1
        if r2 != "sat":
            return tr.add(name, obl, desc, "inconclusive", reason="vacuous: ranges unsatisfiable (%s)" % r2, queries=2)
        return tr.add(name, obl, desc, "pass", solver_s=round(time.time() - t0, 4), queries=2)
    if res != "sat" or "ci" not in vals:
        return tr.add(name, obl, desc, "inconclusive", reason="solver answered %s" % res, queries=1)
    e = cat[vals["ci"]]
    k, n = min(vals.get("pk", 0), 40), min(vals.get("pn", 0), 40)
    got = native_circle(tr, e, k, n)
    rep = bool(got and len(got[0]) == 1 and judge(e, k, n, got))
    os.makedirs(os.path.join(core.VERIF, "replays"), exist_ok=True)
    path = os.path.join(core.VERIF, "replays", "%s-T-%s.txt" % (tr.prop, name))
    with open(path, "w") as f:
        f.write("# tablesmt counterexample for property %s, obligation %s (%s)\n" % (tr.prop, obl, name))
        f.write("# violated: %s (catalogue entry %d at column %d, row %d)\n" % (what, base + vals["ci"], k, n))
        f.write("circle_entry %d %d %d %s\n" % (base + vals["ci"], k, n, name))
        for row in e["art"]:
            f.write("#   |%s|\n" % row)
        f.write("native_render %r\n" % (got and (got[0], got[1], got[2]),))
        f.write("reproduced %s\n" % rep)
    return tr.add(name, obl, desc, "fail" if rep else "inconclusive",
                  reason="" if rep else "counterexample does not reproduce on the real crate",
                  key=what, reproduced=rep, replay=path, counterexample=e["art"], queries=1,
                  solver_s=round(time.time() - t0, 4))


C13_TOL = 2.5   # units (cell = 1 x 2): cell centre within one cell height + half a cell width of the circle line


def judge_extent(e, k, n, got):
    (cx, cy, r) = got[0][0]
    flush = any(row[:1] in ("/", "\\", "╱", "╲") for row in e["art"])
    lo = k + (0.0 if flush else 0.5)
    hi = k + e["cols"] - (0.0 if flush else 0.5)
    return abs(cx - r - lo) > 1e-4 or abs(cx + r - hi) > 1e-4


def judge_close(e, k, n, got):
    (cx, cy, r) = got[0][0]
    import math as _m
    for y, row in enumerate(e["art"]):
        for x, ch in enumerate(row):
            if not ch.isspace():
                d = _m.hypot(k + x + 0.5 - cx, 2 * (n + y) + 1.0 - cy)
                if abs(d - r) > C13_TOL + 1e-4:
                    return True
    return False


def q_c13(tr):
    try:
        cat = load_circle_catalogue(os.path.join(core.CRATE, "src"))
    except tables.Unsupported as e:
        tr.add("o13_catalogue", "O13", "circle catalogue", "inconclusive",
               reason="circle catalogue is outside the translatable subset: %s" % e)
        return
    bad = []
    for idx, e in enumerate(cat):
        got = native_circle(tr, e, 0, 0)
        cx, cy, r = circle_model(e)
        want = (float(cx), float(cy), float(r))
        if not got or len(got[0]) != 1 or any(abs(a - b) > 1e-4 for a, b in zip(got[0][0], want)):
            bad.append((idx, want, got and got[0]))
    tr.circle_validation = {"entries": len(cat), "disagreements": len(bad)}
    if bad:
        tr.add("o13_catalogue", "O13", "circle catalogue", "inconclusive",
               reason="catalogue model and real crate disagree on entry %d: model %r, rendered %r "
                      "(the drawing is not emitted as exactly one circle with the catalogue's centre/radius)" % bad[0])
        return
    N = len(cat)
    _circle_query(
        tr, "o13_1_extent_radius", "O13.1",
        "every catalogue entry (%d, index symbolic) at every placement (k, n >= 0 symbolic): the circle's horizontal extent "
        "[cx-r, cx+r] equals the drawing's extent - from the middle of its first to the middle of its last column, or from "
        "edge to edge when its left-most column holds a slash - i.e. r = (cols-1)/2 resp. cols/2 cells" % N,
        cat, False,
        "(or (not (= (- cX cR) (+ (to_real pk) (ite cSlash 0.0 0.5)))) "
        "(not (= (+ cX cR) (- (+ (to_real pk) cCols) (ite cSlash 0.0 0.5)))))",
        "the circle's horizontal extent differs from the drawing's extent", judge_extent)
    t = "%s" % C13_TOL
    # one pair of queries per entry (cell index symbolic over the entry's cells): keeps the ite chains short,
    # which matters for the cvc5 cross-check
    for idx, e in enumerate(cat):
        ncells = sum(len(r.replace(' ', '')) for r in e["art"])
        # (a) linear: the offset between a cell centre and the circle centre does not depend on the placement
        _circle_query(
            tr, "o13_2a_offset_placement_free_%02d" % idx, "O13.2",
            "catalogue entry %d, every occupied cell (cell index symbolic over its %d cells), every placement (k, n >= 0 "
            "symbolic): the offset (cell centre - circle centre) equals the placement-free offset "
            "(gx - (r + edge increment), gy - 2*offset_center_y)" % (idx, ncells),
            [e], True,
            "(or (not (= (- (+ (to_real pk) gx) cX) (- gx (+ cR (ite cEdge 0.0 0.5))))) "
            "(not (= (- (+ (* 2.0 (to_real pn)) gy) cY) (- gy (* cOY 2.0)))))",
            "cell-to-centre offset depends on the placement", lambda e, k, n, got: False, base=idx)
        # (b) the placement-free offsets: within tolerance of the circle line
        _circle_query(
            tr, "o13_2_cells_near_circle_%02d" % idx, "O13.2",
            "catalogue entry %d, every occupied cell (cell index symbolic over its %d cells): the cell centre lies within %s "
            "units (one cell height plus half a cell width) of the circle line, decided without square roots as "
            "(r-t)^2 <= d^2 <= (r+t)^2 on the placement-free offsets of O13.2a" % (idx, ncells, t),
            [e], True,
            "(let ((dx (- gx (+ cR (ite cEdge 0.0 0.5)))) (dy (- gy (* cOY 2.0)))) (let ((d2 (+ (* dx dx) (* dy dy)))) "
            "(or (> d2 (* (+ cR %s) (+ cR %s))) (and (> cR %s) (< d2 (* (- cR %s) (- cR %s)))))))" % (t, t, t, t, t),
            "a cell of the drawing lies farther than one cell from the emitted circle", judge_close, base=idx)


QUERIES["C13"] = q_c13
PROPS.add("C13")


_q_c14_prev2 = q_c14


def q_c14_with_unicode(tr):
    _q_c14_prev2(tr)
    q_rounded_unicode(tr, "O14.2", "o14_2_rounded")


QUERIES["C14"] = q_c14_with_unicode

"""A lexer and recursive-descent parser for the small Rust subset in which
svgbob's character tables (map/ascii_map.rs, map/unicode_map.rs) are written.

Anything outside the subset raises Unsupported, which the caller reports as
INCONCLUSIVE (never as a verdict).
"""
import re


class Unsupported(Exception):
    pass


TOKEN_RE = re.compile(r"""
    (?P<ws>\s+)
  | (?P<comment>//[^\n]*)
  | (?P<char>'(?:\\u\{[0-9a-fA-F]+\}|\\.|[^'\\])')
  | (?P<lifetime>'[A-Za-z_][A-Za-z0-9_]*(?!'))
  | (?P<string>"(?:\\.|[^"\\])*")
  | (?P<float>\d+\.\d+(?:_?f32)?)
  | (?P<int>\d+(?:_?(?:i32|u32|usize|f32))?)
  | (?P<ident>[A-Za-z_][A-Za-z0-9_]*)
  | (?P<op>::|&&|\|\||->|=>|==|!=|<=|>=|[-+*/!=<>(){}\[\],;.|&:#?@%^$~])
""", re.X)


class Tok:
    __slots__ = ("kind", "val", "pos")

    def __init__(self, kind, val, pos):
        self.kind, self.val, self.pos = kind, val, pos

    def __repr__(self):
        return "%s:%r" % (self.kind, self.val)


def lex(src):
    toks = []
    i = 0
    n = len(src)
    while i < n:
        # block comments
        if src.startswith("/*", i):
            j = src.find("*/", i + 2)
            if j < 0:
                raise Unsupported("unterminated block comment")
            i = j + 2
            continue
        m = TOKEN_RE.match(src, i)
        if not m:
            raise Unsupported("cannot tokenize at %d: %r" % (i, src[i:i + 30]))
        kind = m.lastgroup
        if kind not in ("ws", "comment"):
            toks.append(Tok(kind, m.group(kind), i))
        i = m.end()
    toks.append(Tok("eof", "", n))
    return toks


def char_value(lit):
    body = lit[1:-1]
    if body.startswith("\\u{"):
        return chr(int(body[3:-1], 16))
    if body.startswith("\\"):
        return {"n": "\n", "t": "\t", "r": "\r", "0": "\0", "'": "'", '"': '"', "\\": "\\"}[body[1]]
    return body


# AST nodes are tuples:
#  ('num', Fraction-able string) ('char', c) ('bool', b) ('name', ident)
#  ('path', [idents]) ('call', fn_ast, [args]) ('method', recv, name, [args])
#  ('vec', [items]) ('tuple', [items]) ('bin', op, a, b) ('un', op, a)
#  ('closure', [params], body) ('block', [stmts], tail) ('let', name, expr)

class Parser:
    def __init__(self, toks):
        self.t = toks
        self.i = 0

    def peek(self, k=0):
        return self.t[self.i + k]

    def next(self):
        tok = self.t[self.i]
        self.i += 1
        return tok

    def accept(self, val):
        if self.peek().val == val and self.peek().kind in ("op", "ident"):
            self.i += 1
            return True
        return False

    def expect(self, val):
        tok = self.next()
        if tok.val != val:
            raise Unsupported("expected %r got %r at %d" % (val, tok.val, tok.pos))
        return tok

    # expression grammar -------------------------------------------------
    def expr(self):
        return self.or_()

    def or_(self):
        a = self.and_()
        while self.peek().val == "||":
            self.next()
            b = self.and_()
            a = ("bin", "||", a, b)
        return a

    def and_(self):
        a = self.cmp_()
        while self.peek().val == "&&":
            self.next()
            b = self.cmp_()
            a = ("bin", "&&", a, b)
        return a

    def cmp_(self):
        a = self.add()
        while self.peek().val in ("==", "!=", "<", ">", "<=", ">=") and self.peek().kind == "op":
            op = self.next().val
            b = self.add()
            a = ("bin", op, a, b)
        return a

    def add(self):
        a = self.mul()
        while self.peek().val in ("+", "-") and self.peek().kind == "op":
            op = self.next().val
            b = self.mul()
            a = ("bin", op, a, b)
        return a

    def mul(self):
        a = self.unary()
        while self.peek().val in ("*", "/") and self.peek().kind == "op":
            op = self.next().val
            b = self.unary()
            a = ("bin", op, a, b)
        return a

    def unary(self):
        if self.peek().kind == "op" and self.peek().val in ("!", "-"):
            op = self.next().val
            return ("un", op, self.unary())
        if self.peek().kind == "op" and self.peek().val == "&":
            self.next()
            return self.unary()
        return self.postfix()

    def postfix(self):
        a = self.primary()
        while True:
            tok = self.peek()
            if tok.kind == "op" and tok.val == ".":
                self.next()
                name = self.next()
                if name.kind not in ("ident", "int"):
                    raise Unsupported("bad method/field name %r" % name.val)
                if self.peek().val == "(":
                    args = self.args()
                    a = ("method", a, name.val, args)
                else:
                    a = ("field", a, name.val)
            elif tok.kind == "op" and tok.val == "(":
                args = self.args()
                a = ("call", a, args)
            elif tok.kind == "ident" and tok.val == "as":
                self.next()
                self.next()  # type name; numeric casts only
            else:
                return a

    def args(self):
        self.expect("(")
        out = []
        while self.peek().val != ")":
            out.append(self.expr())
            if not self.accept(","):
                break
        self.expect(")")
        return out

    def primary(self):
        tok = self.next()
        if tok.kind == "float" or tok.kind == "int":
            v = re.sub(r"_?(f32|i32|u32|usize)$", "", tok.val)
            return ("num", v)
        if tok.kind == "char":
            return ("char", char_value(tok.val))
        if tok.kind == "ident":
            if tok.val in ("true", "false"):
                return ("bool", tok.val == "true")
            if tok.val == "move" or tok.val == "|":
                return self.closure()
            if tok.val == "vec" and self.peek().val == "!":
                self.next()
                return self.vec_macro()
            if self.peek().val == "!" and self.peek(1).val in ("(", "["):
                raise Unsupported("macro %s! is outside the table subset" % tok.val)
            path = [tok.val]
            while self.peek().val == "::":
                self.next()
                nxt = self.next()
                if nxt.kind != "ident":
                    raise Unsupported("bad path")
                path.append(nxt.val)
            # struct literal  Name { field: expr, ... }
            if self.peek().val == "{" and self.peek(1).kind == "ident" and self.peek(2).val == ":" \
                    and self.peek(3).val != ":":
                self.next()
                fields = {}
                while self.peek().val != "}":
                    fname = self.next().val
                    self.expect(":")
                    fields[fname] = self.expr()
                    if not self.accept(","):
                        break
                self.expect("}")
                return ("struct", path, fields)
            if len(path) == 1:
                return ("name", path[0])
            return ("path", path)
        if tok.kind == "op":
            if tok.val == "(":
                items = []
                trailing = False
                while self.peek().val != ")":
                    items.append(self.expr())
                    trailing = False
                    if self.accept(","):
                        trailing = True
                    else:
                        break
                self.expect(")")
                if len(items) == 1 and not trailing:
                    return items[0]
                return ("tuple", items)
            if tok.val == "|":
                self.i -= 1
                return self.closure()
            if tok.val == "||":
                body = self.closure_body()
                return ("closure", [], body)
            if tok.val == "{":
                self.i -= 1
                return self.block()
        raise Unsupported("unexpected token %r at %d" % (tok.val, tok.pos))

    def vec_macro(self):
        self.expect("[")
        items = []
        while self.peek().val != "]":
            items.append(self.expr())
            if not self.accept(","):
                break
        self.expect("]")
        return ("vec", items)

    def closure(self):
        # after optional `move`
        self.expect("|")
        params = []
        while self.peek().val != "|":
            p = self.next()
            if p.kind != "ident":
                raise Unsupported("closure parameter pattern")
            params.append(p.val)
            if not self.accept(","):
                break
        self.expect("|")
        body = self.closure_body()
        return ("closure", params, body)

    def closure_body(self):
        if self.peek().val == "{":
            return self.block()
        return self.expr()

    def block(self):
        self.expect("{")
        stmts = []
        tail = None
        while self.peek().val != "}":
            if self.peek().kind == "ident" and self.peek().val == "let":
                self.next()
                if self.peek().val == "mut":
                    self.next()
                name = self.next()
                if name.kind != "ident":
                    raise Unsupported("let pattern")
                if self.accept(":"):
                    self.skip_type()
                self.expect("=")
                e = self.expr()
                self.expect(";")
                stmts.append(("let", name.val, e))
            else:
                e = self.expr()
                if self.accept(";"):
                    stmts.append(("expr", e))
                else:
                    tail = e
                    break
        self.expect("}")
        return ("block", stmts, tail)

    def skip_type(self):
        depth = 0
        while True:
            tok = self.peek()
            if tok.kind == "eof":
                raise Unsupported("type runs to eof")
            if tok.val in ("<", "(", "["):
                depth += 1
            elif tok.val in (">", ")", "]"):
                depth -= 1
            elif tok.val == "->":
                pass
            elif tok.val == "=" and depth == 0:
                return
            self.next()


def parse_expr_at(src, start):
    """parse one expression starting at byte offset `start` of src"""
    toks = lex(src[start:])
    p = Parser(toks)
    e = p.expr()
    return e


def find_fn_bodies(src, impl_name):
    """all `fn name(params) ... { body }` inside `impl <impl_name> {`; returns
    {name: (param_names, block_ast)}; functions whose body is outside the
    subset are skipped (the caller fails if it needs one of them)."""
    m = re.search(r"^impl\s+%s\s*\{" % re.escape(impl_name), src, re.M)
    if not m:
        raise Unsupported("impl %s not found" % impl_name)
    # find matching brace of the impl
    i = m.end()
    depth = 1
    while i < len(src) and depth:
        if src[i] == "{":
            depth += 1
        elif src[i] == "}":
            depth -= 1
        i += 1
    body = src[m.end():i - 1]
    out = {}
    for fm in re.finditer(r"fn\s+(\w+)\s*\(([^)]*)\)[^{;]*\{", body):
        name = fm.group(1)
        params = []
        for prm in fm.group(2).split(","):
            prm = prm.strip()
            if not prm or prm in ("&self", "self", "&mut self"):
                continue
            params.append(prm.split(":")[0].strip())
        start = fm.end() - 1
        j = start + 1
        depth = 1
        while j < len(body) and depth:
            if body.startswith("//", j):
                j = body.find("\n", j)
                if j < 0:
                    j = len(body)
                continue
            if body[j] == "{":
                depth += 1
            elif body[j] == "}":
                depth -= 1
            j += 1
        try:
            toks = lex(body[start:j])
            blk = Parser(toks).block()
            out[name] = (params, blk)
        except (Unsupported, KeyError, IndexError):
            continue
    return out

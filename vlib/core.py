"""Driver library for the solver-based checks of svgbob (engine K = Kani/CBMC).

Nothing here decides a property: it prepares a scratch copy of /repo's current
working tree with the harness modules injected, runs `cargo kani` per harness
under time/memory caps, parses the per-check results, replays counterexamples
natively and writes the evidence file.
"""
import hashlib
import json
import os
import re
import shutil
import signal
import subprocess
import sys
import time
from concurrent.futures import ThreadPoolExecutor, as_completed

VERIF = os.path.dirname(os.path.dirname(os.path.abspath(__file__)))
REPO = os.environ.get("VERIF_REPO", "/repo")
CRATE = os.path.join(REPO, "crates", "svgbob")
KANI_DIR = os.path.join(VERIF, "kani")
CACHE = os.path.expanduser("~/.cache/verif-svgbob")
SCRATCH_ROOT = os.environ.get("VERIF_SCRATCH", "/var/tmp/verif-svgbob")
KNOWN_FILE = os.path.join(VERIF, "known_findings.txt")
NCPU = os.cpu_count() or 4
TOTAL_MEM_GB = 90  # sum of per-harness virtual-memory caps allowed to run concurrently (caps are ~2-3x the real peak; 62 GB box)

ENV = dict(os.environ)
ENV["CARGO_NET_OFFLINE"] = "true"
ENV.pop("RUSTFLAGS", None)


def log(msg):
    sys.stderr.write(msg + "\n")
    sys.stderr.flush()


# ---------------------------------------------------------------------------
# harness registry: parsed from the //@ annotations in /verif/kani/*.rs

class Harness:
    def __init__(self, name, file, target, attrs):
        self.name = name
        self.file = file            # basename in /verif/kani
        self.target = target        # path relative to the crate, e.g. src/util.rs
        self.props = attrs.get("props", "").split(",")
        self.tier = attrs.get("tier", "quick")   # quick | thorough | quickonly
        self.obl = attrs.get("obl", "")
        self.timeout = int(attrs.get("timeout", "600"))
        if os.environ.get("VERIF_MAX_TIMEOUT"):
            self.timeout = min(self.timeout, int(os.environ["VERIF_MAX_TIMEOUT"]))
        self.mem = int(attrs.get("mem", "8"))
        self.flags = attrs.get("flags", "")
        self.desc = attrs.get("desc", "")
        self.encodes = attrs.get("encodes", "")
        self.stubs = attrs.get("stubs", "")
        self.unwind = None
        self.modname = "verif_" + os.path.splitext(file)[0]

    @property
    def fqname(self):
        p = self.target
        assert p.startswith("src/") and p.endswith(".rs")
        p = p[4:-3]
        parts = [x for x in p.split("/") if x not in ("lib", "mod")]
        return "::".join(parts + [self.modname, self.name])


def load_registry():
    hs = []
    for fn in sorted(os.listdir(KANI_DIR)):
        if not fn.endswith("_h.rs"):
            continue
        text = open(os.path.join(KANI_DIR, fn)).read()
        m = re.search(r"^//@ target:\s*(\S+)", text, re.M)
        if not m:
            raise SystemExit("harness file %s has no //@ target" % fn)
        target = m.group(1)
        lines = text.split("\n")
        i = 0
        while i < len(lines):
            ln = lines[i]
            m = re.match(r"//@ harness:\s*(\w+)\s*(.*)$", ln)
            if m:
                name = m.group(1)
                attrs = {}
                for kv in m.group(2).split():
                    if "=" in kv:
                        k, v = kv.split("=", 1)
                        attrs[k] = v
                j = i + 1
                while j < len(lines) and lines[j].startswith("//@ "):
                    mm = re.match(r"//@ (\w+):\s*(.*)$", lines[j])
                    if mm:
                        attrs[mm.group(1)] = mm.group(2)
                    j += 1
                h = Harness(name, fn, target, attrs)
                # find unwind
                k = j
                while k < len(lines) and not lines[k].startswith("fn "):
                    mu = re.search(r"kani::unwind\((\d+)\)", lines[k])
                    if mu:
                        h.unwind = int(mu.group(1))
                    ms = re.search(r"kani::stub\(([^,]+),\s*([^)]+)\)", lines[k])
                    if ms:
                        h.stubs = (h.stubs + "; " if h.stubs else "") + \
                            "%s -> %s" % (ms.group(1).strip(), ms.group(2).strip())
                    k += 1
                hs.append(h)
                i = j
            else:
                i += 1
    names = [h.name for h in hs]
    dup = set(n for n in names if names.count(n) > 1)
    if dup:
        raise SystemExit("duplicate harness names: %s" % dup)
    return hs


def select(hs, prop, tier):
    out = []
    for h in hs:
        if prop not in h.props:
            continue
        if tier == "quick" and h.tier in ("quick", "quickonly"):
            out.append(h)
        elif tier == "thorough" and h.tier in ("quick", "thorough"):
            out.append(h)
    return out


# ---------------------------------------------------------------------------
# scratch copy + injection

def repo_fingerprint():
    """hash of the crate sources actually copied (for the evidence)."""
    h = hashlib.sha256()
    for root, dirs, files in os.walk(os.path.join(CRATE, "src")):
        dirs.sort()
        for f in sorted(files):
            p = os.path.join(root, f)
            h.update(p.encode())
            h.update(open(p, "rb").read())
    return h.hexdigest()[:16]


def make_scratch(tag, harness_files):
    """copy /repo/crates/svgbob (current working tree) and inject harness modules"""
    os.makedirs(SCRATCH_ROOT, exist_ok=True)
    d = os.path.join(SCRATCH_ROOT, "%s.%d" % (tag, os.getpid()))
    if os.path.exists(d):
        shutil.rmtree(d)
    os.makedirs(d)
    crate = os.path.join(d, "svgbob")
    shutil.copytree(CRATE, crate, ignore=shutil.ignore_patterns("target"))
    lock = os.path.join(REPO, "Cargo.lock")
    if os.path.exists(lock):
        shutil.copy(lock, os.path.join(crate, "Cargo.lock"))
    with open(os.path.join(crate, "Cargo.toml"), "a") as f:
        f.write("\n[workspace]\n\n[lints.rust]\nunexpected_cfgs = { level = \"allow\", check-cfg = ['cfg(kani)'] }\n")
    hdir = os.path.join(crate, "verif_h")
    os.makedirs(hdir)
    # kstub in the crate root
    shutil.copy(os.path.join(KANI_DIR, "kstub.rs"), os.path.join(hdir, "kstub.rs"))
    librs = os.path.join(crate, "src", "lib.rs")
    src = open(librs).read()
    src = "#![cfg_attr(kani, feature(allocator_api))]\n" + src + \
        '\n#[cfg(kani)]\n#[path = "../verif_h/kstub.rs"]\npub mod kstub;\n'
    open(librs, "w").write(src)
    targets = {}
    for fn in sorted(set(harness_files)):
        text = open(os.path.join(KANI_DIR, fn)).read()
        m = re.search(r"^//@ target:\s*(\S+)", text, re.M)
        target = m.group(1)
        tpath = os.path.join(crate, target)
        if not os.path.exists(tpath):
            return d, crate, "injection target %s does not exist in /repo" % target
        shutil.copy(os.path.join(KANI_DIR, fn), os.path.join(hdir, fn))
        modname = "verif_" + os.path.splitext(fn)[0]
        rel = os.path.relpath(os.path.join(hdir, fn), os.path.dirname(tpath))
        with open(tpath, "a") as f:
            # relative path: the scratch crate is copied once per harness process
            f.write('\n#[cfg(kani)]\n#[path = "%s"]\nmod %s;\n' % (rel, modname))
        targets[fn] = target
    return d, crate, None


def cleanup(d):
    if os.environ.get("VERIF_KEEP_SCRATCH"):
        log("keeping scratch %s" % d)
        return
    shutil.rmtree(d, ignore_errors=True)


def cache_key():
    h = hashlib.sha256()
    lock = os.path.join(REPO, "Cargo.lock")
    if os.path.exists(lock):
        h.update(open(lock, "rb").read())
    h.update(open(os.path.join(CRATE, "Cargo.toml"), "rb").read())
    h.update(b"kani-0.68.0-v2")
    return h.hexdigest()[:12]


def ensure_dep_cache():
    """A target dir with all dependencies compiled by kani-compiler.  Keyed by
    Cargo.lock; svgbob's own artefacts are stripped so that only dependencies
    are shared (hard-linked) between concurrently running harness processes."""
    key = cache_key()
    tdir = os.path.join(CACHE, "kani-target-" + key)
    stamp = os.path.join(tdir, ".verif-complete")
    if os.path.exists(stamp):
        return tdir, 0.0
    t0 = time.time()
    os.makedirs(CACHE, exist_ok=True)
    for old in os.listdir(CACHE):
        if old.startswith("kani-target-"):
            shutil.rmtree(os.path.join(CACHE, old), ignore_errors=True)
    d, crate, err = make_scratch("depcache", [])
    try:
        # a trivial harness so that kani has something to compile
        with open(os.path.join(crate, "src", "lib.rs"), "a") as f:
            f.write("\n#[cfg(kani)]\n#[kani::proof]\nfn verif_depcache_probe() { assert!(1 + 1 == 2); }\n")
        cmd = ["cargo", "kani", "--only-codegen", "-Z", "stubbing", "--target-dir", tdir]
        log("building dependency cache (%s) ..." % " ".join(cmd))
        p = subprocess.run(cmd, cwd=crate, env=ENV, stdout=subprocess.PIPE,
                           stderr=subprocess.STDOUT, text=True)
        if p.returncode != 0:
            log(p.stdout[-4000:])
            raise SystemExit("INCONCLUSIVE: dependency cache build failed")
        strip_own_artifacts(tdir)
        open(stamp, "w").write(key)
    finally:
        cleanup(d)
    return tdir, time.time() - t0


def strip_own_artifacts(tdir):
    for root, dirs, files in os.walk(tdir, topdown=False):
        for f in files:
            if "svgbob" in f:
                try:
                    os.unlink(os.path.join(root, f))
                except OSError:
                    pass
        for dd in dirs:
            if "svgbob" in dd or dd == "incremental":
                shutil.rmtree(os.path.join(root, dd), ignore_errors=True)


def clone_target(cache_tdir, dest):
    if os.path.exists(dest):
        shutil.rmtree(dest)
    subprocess.run(["cp", "-al", cache_tdir, dest], check=True)
    strip_own_artifacts(dest)
    try:
        os.unlink(os.path.join(dest, ".verif-complete"))
    except OSError:
        pass


# ---------------------------------------------------------------------------
# running one harness

CHECK_RE = re.compile(r"^Check (\d+): (.*)$")


class CheckResult:
    __slots__ = ("id", "cls", "status", "desc", "loc")

    def __init__(self, id_):
        self.id = id_
        m = re.search(r"\.([A-Za-z_\-]+)\.(\d+)$", id_)
        self.cls = m.group(1) if m else "?"
        self.status = "?"
        self.desc = ""
        self.loc = ""


def parse_kani_output(out):
    checks = []
    cur = None
    for ln in out.split("\n"):
        m = CHECK_RE.match(ln)
        if m:
            cur = CheckResult(m.group(2).strip())
            checks.append(cur)
            continue
        if cur is not None:
            s = ln.strip()
            if s.startswith("- Status:"):
                cur.status = s.split(":", 1)[1].strip()
            elif s.startswith("- Description:"):
                cur.desc = s.split(":", 1)[1].strip().strip('"').strip()
            elif s.startswith("- Location:"):
                cur.loc = s.split(":", 1)[1].strip()
            elif s == "" or s.startswith("SUMMARY"):
                pass
    return checks


FLOAT_NOISE = ("NaN on ", "arithmetic overflow on floating-point")


def classify(c):
    """obligation | bound | ignore | unsupported | cover"""
    if c.cls == "cover":
        return "cover"
    if "KSTUB-BOUND" in c.desc:
        return "bound"
    if c.cls in ("unwind", "recursion") or "unwinding assertion" in c.desc or \
            "recursion unwinding" in c.desc:
        return "bound"
    if c.cls == "NaN" or any(c.desc.startswith(p) for p in FLOAT_NOISE):
        return "ignore"
    if c.cls == "unsupported_construct" or "is not currently supported by Kani" in c.desc:
        return "unsupported"
    return "obligation"


class HarnessRun:
    def __init__(self, h):
        self.h = h
        self.status = "?"        # pass | fail | inconclusive
        self.reason = ""
        self.wall = 0.0
        self.solver_s = None
        self.n_checks = 0
        self.n_oblig = 0
        self.failed = []         # CheckResult (obligation failures)
        self.covers = []         # (desc, status)
        self.log = ""
        self.replay = None       # dict
        self.vccs = None
        self.steps = None
        self.cached = None


def run_kani(crate, h, tdir, logdir, extra=None, timeout=None, mem=None, suffix=""):
    cmd = ["cargo", "kani", "--harness", h.fqname, "--exact", "--target-dir", tdir,
           "-Z", "stubbing"]
    if h.flags:
        cmd += h.flags.split(",")
    if extra:
        cmd += extra
    memkb = (mem or h.mem) * 1024 * 1024
    shell = "ulimit -v %d; exec %s" % (memkb, " ".join(cmd))
    t0 = time.time()
    logf = os.path.join(logdir, h.name + suffix + ".log")
    to = timeout or h.timeout
    with open(logf, "w") as lf:
        p = subprocess.Popen(["bash", "-c", shell], cwd=crate, env=ENV, stdout=lf,
                             stderr=subprocess.STDOUT, start_new_session=True)
        try:
            p.wait(timeout=to)
            timed_out = False
        except subprocess.TimeoutExpired:
            timed_out = True
            try:
                os.killpg(p.pid, signal.SIGKILL)
            except ProcessLookupError:
                pass
            p.wait()
    wall = time.time() - t0
    out = open(logf, errors="replace").read()
    return out, p.returncode, timed_out, wall, logf


def evaluate(h, out, rc, timed_out, wall, logf):
    r = HarnessRun(h)
    r.wall = wall
    r.log = logf
    if timed_out:
        r.status = "inconclusive"
        r.reason = "timeout after %ds" % h.timeout
        return r
    if "error: Failed to match the following harness" in out or "no harnesses matched" in out:
        r.status = "inconclusive"
        r.reason = "harness not found (injection/compile problem)"
        return r
    if re.search(r"^error(\[E\d+\])?:", out, re.M) and "VERIFICATION:-" not in out:
        r.status = "inconclusive"
        m = re.search(r"^(error(\[E\d+\])?:.*)$", out, re.M)
        r.reason = "harness does not compile against the current tree: " + m.group(1)[:200]
        return r
    checks = parse_kani_output(out)
    r.n_checks = len(checks)
    m = re.search(r"Verification Time: ([0-9.]+)s", out)
    if m:
        r.solver_s = float(m.group(1))
    m = re.search(r"Generated (\d+) VCC\(s\), (\d+) remaining after simplification", out)
    if m:
        r.vccs = (int(m.group(1)), int(m.group(2)))
    m = re.search(r"size of program expression: (\d+) steps", out)
    if m:
        r.steps = int(m.group(1))
    if "VERIFICATION:-" not in out or not checks:
        r.status = "inconclusive"
        if "out of memory" in out.lower() or "std::bad_alloc" in out or rc in (-9, 137, 134, -6):
            r.reason = "CBMC ran out of memory (cap %d GB)" % h.mem
        else:
            r.reason = "no verification verdict (rc=%s)" % rc
        return r
    bound_fail, unsup_fail, undet = [], [], []
    if any(c.status == "ERROR" for c in checks):
        r.status = "inconclusive"
        r.reason = "solver error / out of memory (cap %d GB)" % h.mem
        return r
    for c in checks:
        k = classify(c)
        if k == "cover":
            r.covers.append((c.desc, c.status))
            continue
        if k == "ignore":
            continue
        if k == "obligation":
            r.n_oblig += 1
        if c.status == "FAILURE":
            if k == "bound":
                bound_fail.append(c)
            elif k == "unsupported":
                unsup_fail.append(c)
            else:
                r.failed.append(c)
        elif c.status == "UNDETERMINED" and k == "obligation":
            undet.append(c)
        elif c.status not in ("SUCCESS", "UNREACHABLE", "UNDETERMINED"):
            undet.append(c)
    if bound_fail:
        r.status = "inconclusive"
        r.reason = "bound check failed (bound too small for this tree): %s" % bound_fail[0].desc[:120]
        return r
    if unsup_fail:
        r.status = "inconclusive"
        r.reason = "unsupported construct reachable: %s" % unsup_fail[0].desc[:120]
        return r
    if r.failed:
        r.status = "fail"
        return r
    if undet:
        r.status = "inconclusive"
        r.reason = "undetermined checks: %s" % undet[0].desc[:120]
        return r
    unsat = [d for d, s in r.covers if s != "SATISFIED"]
    if unsat:
        r.status = "inconclusive"
        r.reason = "vacuity witness not reachable: %s" % unsat[0][:120]
        return r
    r.status = "pass"
    return r


# ---------------------------------------------------------------------------
# replay of a counterexample (Kani concrete playback, dev + release profile)

PLAYBACK_FLAGS = ["-Z", "concrete-playback", "--concrete-playback=inplace"]


def replay(crate, h, tdir, logdir, profiles=("dev", "release")):
    """returns dict(reproduced: bool|None, test: str, log: str)"""
    res = {"reproduced": None, "test": "", "detail": ""}
    hfile = os.path.join(crate, "verif_h", h.file)
    src = open(hfile).read()
    if not re.search(r"fn kani_concrete_playback_%s_\w+\(" % re.escape(h.name), src):
        # the deciding run could not produce the trace (it needs more memory than the verdict): run again
        out, rc, to, wall, logf = run_kani(
            crate, h, tdir, logdir, extra=PLAYBACK_FLAGS,
            timeout=h.timeout * 2, mem=max(32, h.mem * 3), suffix=".playback-gen")
        src = open(hfile).read()
    # Kani emits one test per failing check; identical counterexamples get identical names: dedupe
    blk_re = re.compile(r"(?:///[^\n]*\n|\s*\n)*#\[test\]\s*\nfn (kani_concrete_playback_\w+)\(\) \{.*?\n\}\n", re.S)
    seen_names = set()

    def _dedupe(m):
        if m.group(1) in seen_names:
            return "\n"
        seen_names.add(m.group(1))
        return m.group(0)
    src2 = blk_re.sub(_dedupe, src)
    if src2 != src:
        open(hfile, "w").write(src2)
        src = src2
    for other in os.listdir(os.path.dirname(hfile)):
        op = os.path.join(os.path.dirname(hfile), other)
        if op != hfile and other.endswith(".rs"):
            seen_names.clear()
            o1 = open(op).read()
            o2 = blk_re.sub(_dedupe, o1)
            if o2 != o1:
                open(op, "w").write(o2)
    tests = re.findall(r"fn (kani_concrete_playback_%s_\w+)\(" % re.escape(h.name), src)
    if not tests:
        res["detail"] = "kani produced no concrete playback test"
        return res
    # extract the generated test functions for the replay file
    blocks = re.findall(r"(?:///[^\n]*\n)*#\[test\]\s*\nfn kani_concrete_playback_%s_\w+\(\) \{.*?\n\}\n"
                        % re.escape(h.name), src, re.S)
    res["test"] = "\n".join(blocks)
    verdicts = []
    for prof in profiles:
        env = dict(ENV)
        ptd = os.path.join(tdir, "playback-" + prof)
        pcache = os.path.join(CACHE, "playback-%s-%s" % (prof, cache_key()))
        if os.path.exists(os.path.join(pcache, ".verif-complete")) and not os.path.exists(ptd):
            subprocess.run(["cp", "-al", pcache, ptd])
            strip_own_artifacts(ptd)
        env["CARGO_TARGET_DIR"] = ptd
        if prof == "release":
            # `cargo kani playback` has no --release: emulate the release profile
            env["CARGO_PROFILE_DEV_OPT_LEVEL"] = "3"
            env["CARGO_PROFILE_DEV_DEBUG_ASSERTIONS"] = "false"
            env["CARGO_PROFILE_DEV_OVERFLOW_CHECKS"] = "false"
            env["CARGO_PROFILE_TEST_OPT_LEVEL"] = "3"
            env["CARGO_PROFILE_TEST_DEBUG_ASSERTIONS"] = "false"
            env["CARGO_PROFILE_TEST_OVERFLOW_CHECKS"] = "false"
        cmd = ["cargo", "kani", "playback", "-Z", "concrete-playback", "-Z", "stubbing",
               "--", "kani_concrete_playback_" + h.name + "_"]
        try:
            p = subprocess.run(cmd, cwd=crate, env=env, stdout=subprocess.PIPE,
                               stderr=subprocess.STDOUT, text=True, timeout=1800)
            pout = p.stdout
        except subprocess.TimeoutExpired:
            pout = "timeout"
        with open(os.path.join(logdir, h.name + ".playback-%s.log" % prof), "w") as f:
            f.write(pout)
        if not os.path.exists(pcache) and "test result:" in pout:
            # keep the natively compiled dependencies for later replays (svgbob's own artefacts stripped)
            tmpc = pcache + ".tmp%d" % os.getpid()
            try:
                subprocess.run(["cp", "-al", ptd, tmpc], check=True)
                strip_own_artifacts(tmpc)
                open(os.path.join(tmpc, ".verif-complete"), "w").write("ok")
                os.rename(tmpc, pcache)
            except Exception:
                shutil.rmtree(tmpc, ignore_errors=True)
        m = re.search(r"test result: (\w+)\. (\d+) passed; (\d+) failed", pout)
        if not m:
            verdicts.append(None)
            res["detail"] += " playback-%s: no test result;" % prof
        else:
            verdicts.append(int(m.group(3)) > 0)
            pan = re.findall(r"panicked at [^\n]*\n[^\n]*", pout)
            res["detail"] += " playback-%s: %s passed %s failed %s;" % (
                prof, m.group(2), m.group(3), [x.replace(crate, "<scratch>") for x in pan[:1]])
    if any(v for v in verdicts if v):
        res["reproduced"] = True
    elif all(v is False for v in verdicts):
        res["reproduced"] = False
    return res


# ---------------------------------------------------------------------------
# known findings

def load_known():
    """lines:  KNOWN-FINDING property=C09 harness=<h> assert=<prefix of assertion text> :: what fails
               fixed: property=C02 <commit> <what failed>        (suppresses nothing)"""
    known = []
    if not os.path.exists(KNOWN_FILE):
        return known
    for ln in open(KNOWN_FILE):
        ln = ln.strip()
        if not ln.startswith("KNOWN-FINDING"):
            continue
        m = re.match(r"KNOWN-FINDING\s+property=(\S+)\s+harness=(\S+)\s+assert=\"([^\"]*)\"\s*::\s*(.*)$", ln)
        if m:
            known.append({"prop": m.group(1), "harness": m.group(2), "assert": m.group(3),
                          "what": m.group(4)})
    return known


def match_known(known, prop, hname, desc):
    for k in known:
        if k["prop"] == prop and k["harness"] == hname and desc.startswith(k["assert"]):
            return k
    return None


# ---------------------------------------------------------------------------
# verdict cache: a harness that PASSED on byte-identical inputs (all crate sources,
# Cargo.lock, the harness file, kstub.rs, the driver's classification code) is not
# re-solved when another property of the same run needs it again.  Content
# addressed; disabled with VERIF_NO_CACHE=1.  Only passes are cached.

CACHE_VERSION = "v4"   # bump when the classification of CBMC results in this file changes


def _harness_view(h):
    """the harness file with the blocks of all OTHER harnesses removed: editing one harness must not
    invalidate the cached verdicts of its neighbours, editing a shared helper must"""
    lines = open(os.path.join(KANI_DIR, h.file)).read().split("\n")
    out = []
    i = 0
    while i < len(lines):
        m = re.match(r"//@ harness:\s*(\w+)", lines[i])
        if m and m.group(1) != h.name:
            # skip to the closing brace of that harness function
            j = i
            while j < len(lines) and not re.match(r"fn %s\(" % re.escape(m.group(1)), lines[j]):
                j += 1
            while j < len(lines) and lines[j] != "}":
                j += 1
            i = j + 1
            continue
        if not lines[i].startswith("//@"):   # annotations (timeout, memory cap, wording) do not affect the verdict
            out.append(lines[i])
        i += 1
    return "\n".join(out)


def _cache_key(h, src_sha):
    hh = hashlib.sha256()
    hh.update(src_sha.encode())
    hh.update(_harness_view(h).encode())
    hh.update(open(os.path.join(KANI_DIR, "kstub.rs"), "rb").read())
    lock = os.path.join(REPO, "Cargo.lock")
    if os.path.exists(lock):
        hh.update(open(lock, "rb").read())
    hh.update(("%s|%s|%s|%s|kani-0.68.0" % (CACHE_VERSION, h.name, h.flags, h.unwind)).encode())
    return hh.hexdigest()[:24]


def cache_get(h, src_sha):
    if os.environ.get("VERIF_NO_CACHE"):
        return None
    p = os.path.join(CACHE, "results", _cache_key(h, src_sha) + ".json")
    if not os.path.exists(p):
        return None
    try:
        d = json.load(open(p))
    except Exception:
        return None
    r = HarnessRun(h)
    r.status = "pass"
    r.wall = d["wall"]
    r.solver_s = d["solver_s"]
    r.n_checks = d["n_checks"]
    r.n_oblig = d["n_oblig"]
    r.covers = [tuple(c) for c in d["covers"]]
    r.vccs = tuple(d["vccs"]) if d.get("vccs") else None
    r.steps = d.get("steps")
    r.log = d.get("log", "")
    r.cached = d.get("decided_at")
    return r


def cache_put(r, src_sha):
    if r.status != "pass" or os.environ.get("VERIF_NO_CACHE"):
        return
    d = os.path.join(CACHE, "results")
    os.makedirs(d, exist_ok=True)
    p = os.path.join(d, _cache_key(r.h, src_sha) + ".json")
    json.dump({"wall": r.wall, "solver_s": r.solver_s, "n_checks": r.n_checks, "n_oblig": r.n_oblig,
               "covers": r.covers, "vccs": r.vccs, "steps": r.steps, "log": r.log,
               "decided_at": time.strftime("%Y-%m-%dT%H:%M:%SZ", time.gmtime())}, open(p, "w"))


# ---------------------------------------------------------------------------
# run a set of harnesses for a property

def run_property_kani(prop, tier, harnesses, seed, on_result=None):
    """returns (runs, meta) ; prints nothing but progress on stderr"""
    t_start = time.time()
    files = sorted(set(h.file for h in harnesses))
    cache_tdir, cache_s = ensure_dep_cache()
    d, crate, err = make_scratch("%s-%s" % (prop, tier), files)
    logroot = os.path.join(VERIF, "logs")
    os.makedirs(logroot, exist_ok=True)
    # keep the logs of the latest two runs of this property/tier only
    old = sorted(x for x in os.listdir(logroot) if x.startswith("%s-%s." % (prop, tier)))
    for x in old[:-1]:
        # never prune the log directory of a run that may still be going on (concurrent evaluation of the
        # same property against another checkout): only directories untouched for an hour
        dx = os.path.join(logroot, x)
        try:
            newest = max([os.path.getmtime(dx)] + [os.path.getmtime(os.path.join(dx, f)) for f in os.listdir(dx)])
        except OSError:
            continue
        if time.time() - newest > 3600:
            shutil.rmtree(dx, ignore_errors=True)
    logdir = os.path.join(logroot, "%s-%s.%d.%d" % (prop, tier, int(time.time()), os.getpid()))
    os.makedirs(logdir, exist_ok=True)
    meta = {"scratch": d, "cache_build_s": cache_s, "logdir": logdir,
            "repo_src_sha": repo_fingerprint()}
    runs = []
    if err:
        for h in harnesses:
            r = HarnessRun(h)
            r.status = "inconclusive"
            r.reason = err
            runs.append(r)
        cleanup(d)
        return runs, meta
    src_sha = meta["repo_src_sha"]
    todo = []
    for h in harnesses:
        c = cache_get(h, src_sha)
        if c is not None:
            runs.append(c)
            log("  [%s] %-34s %-12s (decided %s on identical sources, %.0fs)" % (prop, h.name, "pass*", c.cached, c.wall))
        else:
            todo.append(h)
    harnesses = todo
    try:
        # schedule: memory-aware greedy; threads just wait on subprocesses
        pending = sorted(harnesses, key=lambda h: -h.timeout)
        running = {}
        mem_used = 0
        slot = 0
        with ThreadPoolExecutor(max_workers=NCPU) as ex:
            def job(h, idx, crate=crate):
                tdir = os.path.join(d, "target-%d" % idx)
                clone_target(cache_tdir, tdir)
                # private copy of the injected crate: concrete-playback writes its tests into the
                # harness file in place, which must not be seen by the other harness processes
                mycrate = os.path.join(d, "crate-%d" % idx)
                shutil.copytree(crate, mycrate)
                crate = mycrate
                # quick-tier harnesses are decided with playback generation on (a failing run then already
                # contains the tests: no second solver run inside the 900 s budget); thorough-only harnesses
                # are the memory-hungry ones and generate the trace in a second run, only when they fail
                first_flags = PLAYBACK_FLAGS if h.tier in ("quick", "quickonly") else None
                out, rc, to, wall, logf = run_kani(crate, h, tdir, logdir, extra=first_flags)
                r = evaluate(h, out, rc, to, wall, logf)
                if r.status == "fail":
                    log("  %s: obligation failed, replaying natively ..." % h.name)
                    try:
                        # quick tier: dev profile only (time budget of the per-change check);
                        # thorough tier: dev and release-like profile
                        profs = ("dev",) if tier == "quick" else ("dev", "release")
                        r.replay = replay(crate, h, tdir, logdir, profiles=profs)
                    except Exception as e:  # noqa
                        r.replay = {"reproduced": None, "test": "", "detail": "replay error: %r" % e}
                shutil.rmtree(tdir, ignore_errors=True)
                shutil.rmtree(mycrate, ignore_errors=True)
                return r
            futs = {}
            while pending or futs:
                # launch what fits
                launched = True
                while pending and launched and len(futs) < NCPU:
                    launched = False
                    for h in list(pending):
                        if mem_used + h.mem <= TOTAL_MEM_GB or not futs:
                            pending.remove(h)
                            mem_used += h.mem
                            f = ex.submit(job, h, slot)
                            slot += 1
                            futs[f] = h
                            launched = True
                            break
                done = [f for f in futs if f.done()]
                if not done:
                    time.sleep(0.5)
                    continue
                for f in done:
                    h = futs.pop(f)
                    mem_used -= h.mem
                    r = f.result()
                    cache_put(r, src_sha)
                    runs.append(r)
                    if on_result:
                        on_result(r)
                    log("  [%s] %-34s %-12s %6.1fs %s" % (prop, h.name, r.status, r.wall, r.reason))
    finally:
        cleanup(d)
    meta["wall_s"] = time.time() - t_start
    return runs, meta

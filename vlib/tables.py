"""Engine T, part 1: extract svgbob's character tables from the Rust source as
exact data (rational points, fragments, boolean conditions over neighbours).

Everything is read from /repo's current sources on every run:
  map/ascii_map.rs, map/unicode_map.rs            the tables
  buffer/cell_buffer/cell/cell_grid.rs, cell.rs   grid geometry
  point.rs                                        Point::adjust*
  buffer/fragment_buffer/fragment/arc.rs          (shape of Arc::new normalisation is checked)
"""
import os
import re
from fractions import Fraction

from . import rustsub
from .rustsub import Unsupported

NEIGHBOURS = ["top_left", "top", "top_right", "left", "right", "bottom_left", "bottom", "bottom_right"]
NB_OFFSET = {"top_left": (-1, -1), "top": (0, -1), "top_right": (1, -1), "left": (-1, 0),
             "right": (1, 0), "bottom_left": (-1, 1), "bottom": (0, 1), "bottom_right": (1, 1)}
SIGNALS = {"Faint": 1, "Weak": 2, "Medium": 3, "Strong": 4}
POLYTAGS = ["ArrowTopLeft", "ArrowTop", "ArrowTopRight", "ArrowLeft", "ArrowRight",
            "ArrowBottomLeft", "ArrowBottom", "ArrowBottomRight", "DiamondBullet"]


class Pt(tuple):
    def __new__(cls, x, y):
        return tuple.__new__(cls, (Fraction(x), Fraction(y)))

    x = property(lambda s: s[0])
    y = property(lambda s: s[1])

    def __add__(self, o):
        return Pt(self[0] + o[0], self[1] + o[1])

    def __sub__(self, o):
        return Pt(self[0] - o[0], self[1] - o[1])

    def key(self):  # svgbob's Point ordering: y then x
        return (self[1], self[0])


class CellV(tuple):
    def __new__(cls, x, y):
        return tuple.__new__(cls, (int(x), int(y)))


class Nb:
    """symbolic neighbour property"""

    def __init__(self, name):
        self.name = name


class Closure:
    def __init__(self, params, body, env):
        self.params, self.body, self.env = params, body, env


# formulas: ('t',) ('f',) ('and', a, b) ('or', a, b) ('not', a) ('atom', nbname, kind, args)
T = ("t",)
F = ("f",)


def f_and(a, b):
    if a == F or b == F:
        return F
    if a == T:
        return b
    if b == T:
        return a
    return ("and", a, b)


def f_or(a, b):
    if a == T or b == T:
        return T
    if a == F:
        return b
    if b == F:
        return a
    return ("or", a, b)


def f_not(a):
    if a == T:
        return F
    if a == F:
        return T
    return ("not", a)


# fragments: ('line', p, q, broken) ('arc', p, q, r, sweep) ('circle', c, r, filled)
#            ('polygon', (pts...), filled, (tags...)) ('rect', p, q, filled, broken)

def mk_line(a, b, broken):
    if a.key() > b.key():
        a, b = b, a
    return ("line", a, b, broken)


def mk_arc(a, b, r, sweep=False):
    # Arc::new: sweep=false; sort_reorder_end_points swaps when start > end and flips sweep
    if a.key() > b.key():
        a, b = b, a
        sweep = not sweep
    return ("arc", a, b, Fraction(r), sweep)


def mk_rect(a, b, filled, broken):
    if a.key() > b.key():
        a, b = b, a
    return ("rect", a, b, filled, broken)


class Interp:
    def __init__(self, src_root):
        self.root = src_root
        rd = lambda p: open(os.path.join(src_root, p)).read()
        self.cellgrid_fns = rustsub.find_fn_bodies(rd("buffer/cell_buffer/cell/cell_grid.rs"), "CellGrid")
        cell_src = rd("buffer/cell_buffer/cell.rs")
        self.cell_fns = rustsub.find_fn_bodies(cell_src, "Cell")
        self.point_fns = rustsub.find_fn_bodies(rd("point.rs"), "Point")
        # the cell_grid! macro: $a(&self) = self.top_left_most() + CellGrid::$a()
        m = re.search(r"macro_rules!\s*cell_grid\s*\{.*?\$\(pub fn \$a\(&self\) -> Point \{\s*"
                      r"self\.top_left_most\(\) \+ CellGrid::\$a\(\)\s*\}\)\*", cell_src, re.S)
        if not m:
            raise Unsupported("cell_grid! macro has an unexpected shape")
        arc_src = rd("buffer/fragment_buffer/fragment/arc.rs")
        # Arc::new normalisation is re-implemented in mk_arc; make sure the source still has that shape
        if not re.search(r"if self\.start > self\.end \{\s*std::mem::swap\(&mut self\.start, &mut self\.end\);\s*"
                         r"self\.sweep_flag = !self\.sweep_flag;", arc_src):
            raise Unsupported("Arc::sort_reorder_end_points has an unexpected shape")
        if not re.search(r"sweep_flag: false,\s*rotation_flag: false,\s*\};\s*arc\.sort_reorder_end_points\(\);",
                         arc_src):
            raise Unsupported("Arc::new has an unexpected shape")
        line_src = rd("buffer/fragment_buffer/fragment/line.rs")
        if not re.search(r"if self\.start > self\.end \{\s*self\.swap\(\)", line_src):
            raise Unsupported("Line::sort_reorder_end_points has an unexpected shape")
        prop_src = rd("buffer/property_buffer/property.rs")
        self.check_property_semantics(prop_src)
        self.funcs_read = ["CellGrid::" + k for k in self.cellgrid_fns] + \
                          ["Cell::" + k for k in ("unit", "top_left_most", "left", "right", "top", "bottom",
                                                  "top_left", "top_right", "bottom_left", "bottom_right")] + \
                          ["Point::adjust", "Point::adjust_x", "Point::adjust_y"]

    def check_property_semantics(self, src):
        """The meaning of the five neighbour predicates is re-implemented in
        tablesmt (exactly: signal threshold + closed-segment containment, arc
        normalisation + equality).  Verify that property.rs still defines them
        the way the re-implementation assumes; otherwise stop (INCONCLUSIVE)."""
        need = [
            r"fn line_overlap\(&self, a: Point, b: Point\) -> bool \{\s*self\.line_overlap_with_signal\(a, b, Signal::Medium\)",
            r"fn line_strongly_overlap\(&self, a: Point, b: Point\) -> bool \{\s*self\.line_overlap_with_signal\(a, b, Signal::Strong\)",
            r"fn line_weakly_overlap\(&self, a: Point, b: Point\) -> bool \{\s*self\.line_overlap_with_signal\(a, b, Signal::Weak\)",
            r"\.filter\(\|\(signal, _signature\)\| \*signal >= required_signal\)\s*\.any\(\|\(_signal, signature\)\| \{\s*signature\.iter\(\)\.any\(\|fragment\| fragment\.line_overlap\(a, b\)\)",
            r"fn arcs_to\(&self, a: Point, b: Point\) -> bool \{\s*self\.signature\.iter\(\)\.any\(\|\(_signal, signature\)\| \{\s*signature\.iter\(\)\.any\(\|fragment\| fragment\.arcs_to\(a, b\)\)",
            r"fn is\(&self, ch: char\) -> bool \{\s*self\.ch == ch",
            r"Signal::Faint => 1,\s*Signal::Weak => 2,\s*Signal::Medium => 3,\s*Signal::Strong => 4,",
        ]
        for pat in need:
            if not re.search(pat, src):
                raise Unsupported("property.rs: predicate definition changed shape: %s" % pat[:60])

    # -- evaluation ------------------------------------------------------
    def call_fn(self, table, name, args, selfv=None):
        if name not in table:
            raise Unsupported("function %s not in the readable subset" % name)
        params, blk = table[name]
        env = dict(zip(params, args))
        if selfv is not None:
            env["self"] = selfv
        env["__self_table__"] = table
        return self.ev(blk, env)

    def ev(self, e, env):
        k = e[0]
        if k == "num":
            return Fraction(e[1])
        if k == "bool":
            return T if e[1] else F
        if k == "char":
            return e[1]
        if k == "name":
            n = e[1]
            if n in env:
                return env[n]
            if n in SIGNALS:
                return ("signal", n)
            if n in POLYTAGS:
                return ("tag", n)
            raise Unsupported("unknown name %s" % n)
        if k == "path":
            p = e[1]
            if p[0] in ("PolygonTag",) and p[-1] in POLYTAGS:
                return ("tag", p[-1])
            if p[0] == "Signal" and p[-1] in SIGNALS:
                return ("signal", p[-1])
            raise Unsupported("path value %s" % "::".join(p))
        if k == "field":
            v = self.ev(e[1], env)
            if isinstance(v, (Pt, CellV)) and e[2] in ("x", "y"):
                return Fraction(v[0] if e[2] == "x" else v[1])
            raise Unsupported("field %s" % e[2])
        if k == "struct":
            if e[1][-1] == "Cell":
                return CellV(self.ev(e[2]["x"], env), self.ev(e[2]["y"], env))
            raise Unsupported("struct literal %s" % e[1])
        if k == "vec":
            return [self.ev(x, env) for x in e[1]]
        if k == "tuple":
            return tuple(self.ev(x, env) for x in e[1])
        if k == "un":
            v = self.ev(e[2], env)
            if e[1] == "-":
                return -v
            if e[1] == "!":
                return f_not(v)
        if k == "bin":
            op = e[1]
            a = self.ev(e[2], env)
            b = self.ev(e[3], env)
            if op == "&&":
                return f_and(a, b)
            if op == "||":
                return f_or(a, b)
            if op == "+":
                return a + b
            if op == "-":
                return a - b
            if op == "*":
                return a * b
            if op == "/":
                return a / b
            raise Unsupported("operator %s" % op)
        if k == "closure":
            return Closure(e[1], e[2], env)
        if k == "block":
            env = dict(env)
            for st in e[1]:
                if st[0] == "let":
                    env[st[1]] = self.ev(st[2], env)
                else:
                    self.ev(st[1], env)
            if e[2] is None:
                raise Unsupported("block without value")
            return self.ev(e[2], env)
        if k == "call":
            fn = e[1]
            args = [self.ev(a, env) for a in e[2]]
            if fn[0] == "path":
                p = fn[1]
                if p == ["Arc", "new"]:
                    return args[0]
                if p[0] == "CellGrid":
                    return self.call_fn(self.cellgrid_fns, p[1], args)
                if p[0] == "Self" and "__self_table__" in env:
                    if p[1] == "new":
                        return self.construct(env["__self_table__"], args)
                    return self.call_fn(env["__self_table__"], p[1], args)
                if p == ["Point", "new"]:
                    return Pt(args[0], args[1])
                if p == ["Cell", "new"]:
                    return CellV(args[0], args[1])
                if p[0] == "Cell":
                    return self.call_fn(self.cell_fns, p[1], args)
                raise Unsupported("call %s" % "::".join(p))
            if fn[0] == "name":
                return self.builtin(fn[1], args)
            raise Unsupported("call form")
        if k == "method":
            recv = self.ev(e[1], env)
            args = [self.ev(a, env) for a in e[3]]
            return self.method(recv, e[2], args)
        raise Unsupported("expression kind %s" % k)

    def construct(self, table, args):
        if table is self.point_fns:
            return Pt(args[0], args[1])
        if table is self.cell_fns:
            return CellV(args[0], args[1])
        raise Unsupported("Self::new in unknown impl")

    def builtin(self, name, a):
        b = lambda v: v == T
        if name == "line":
            return mk_line(a[0], a[1], False)
        if name == "broken_line":
            return mk_line(a[0], a[1], True)
        if name == "arc":
            return mk_arc(a[0], a[1], a[2])
        if name == "circle":
            return ("circle", a[0], Fraction(a[1]), b(a[2]))
        if name == "polygon":
            return ("polygon", tuple(a[0]), b(a[1]), tuple(t[1] for t in a[2]))
        if name == "rect":
            return mk_rect(a[0], a[1], b(a[2]), b(a[3]))
        raise Unsupported("function %s" % name)

    def method(self, recv, name, args):
        if isinstance(recv, Nb):
            if name in ("line_overlap", "line_strongly_overlap", "line_weakly_overlap"):
                sig = {"line_overlap": 3, "line_strongly_overlap": 4, "line_weakly_overlap": 2}[name]
                return ("atom", recv.name, "line", (sig, args[0], args[1]))
            if name == "arcs_to":
                return ("atom", recv.name, "arc", (args[0], args[1]))
            if name == "is":
                return ("atom", recv.name, "is", (args[0],))
            raise Unsupported("neighbour predicate %s" % name)
        if isinstance(recv, Pt):
            if name in ("adjust", "adjust_x", "adjust_y"):
                return self.call_fn(self.point_fns, name, args, selfv=recv)
            raise Unsupported("Point method %s" % name)
        if isinstance(recv, CellV):
            if name in NB_OFFSET or name in ("top_left_most",):
                return self.call_fn(self.cell_fns, name, args, selfv=recv)
            if len(name) == 1 and name in "abcdefghijklmnopqrstuvwxy":
                tl = self.call_fn(self.cell_fns, "top_left_most", [], selfv=recv)
                return tl + self.call_fn(self.cellgrid_fns, name, [])
            raise Unsupported("Cell method %s" % name)
        raise Unsupported("method %s on %r" % (name, type(recv)))


class Tables:
    """ascii: {ch: (signature [(sig_int,[frags])], behaviour [(formula,[frags])])}
       unicode: {ch: [frags]}"""

    def __init__(self, src_root):
        self.interp = Interp(src_root)
        self.ascii = {}
        self.unicode = {}
        self.load_ascii(open(os.path.join(src_root, "map/ascii_map.rs")).read())
        self.load_unicode(open(os.path.join(src_root, "map/unicode_map.rs")).read())

    def _prelude(self, src, static_name):
        m = re.search(r"pub static %s\b[^=]*=\s*Lazy::new\(\|\|\s*\{" % static_name, src)
        if not m:
            raise Unsupported("static %s not found" % static_name)
        toks = rustsub.lex(src[m.end():])
        p = rustsub.Parser(toks)
        env = {}
        map_ast = None
        while p.peek().kind == "ident" and p.peek().val == "let":
            p.next()
            if p.peek().val == "mut":
                break
            name = p.next().val
            if p.accept(":"):
                p.skip_type()
            p.expect("=")
            e = p.expr()
            p.expect(";")
            if name == "map":
                map_ast = e
                break
            env[name] = self.interp.ev(e, env)
        if map_ast is None:
            raise Unsupported("%s: `let map = vec![..]` not found" % static_name)
        # what follows must be the plain insertion loop
        rest = " ".join(t.val for t in p.t[p.i:p.i + 60])
        return env, map_ast, rest

    def load_ascii(self, src):
        env, map_ast, rest = self._prelude(src, "ASCII_PROPERTIES")
        if not rest.startswith("let mut btree = BTreeMap :: new ( ) ; for ( ch , fragments , closure ) in map { "
                               "btree . insert ( ch , Property :: new ( ch , fragments , closure ) ) ; } btree } )"):
            raise Unsupported("ASCII_PROPERTIES is no longer built by the plain insertion loop")
        entries = self.interp.ev(map_ast, env)
        for ent in entries:
            ch, sig, clo = ent
            if not isinstance(clo, Closure) or clo.params != NEIGHBOURS:
                raise Unsupported("behaviour of %r is not the 8-neighbour closure" % ch)
            signature = [(SIGNALS[s[1]], list(frs)) for (s, frs) in sig]
            cenv = dict(clo.env)
            for n in NEIGHBOURS:
                cenv[n] = Nb(n)
            beh = self.interp.ev(clo.body, cenv)
            behaviour = [(cond, list(frs)) for (cond, frs) in beh]
            if ch in self.ascii:
                # BTreeMap::insert: the later entry replaces the earlier one
                pass
            self.ascii[ch] = (signature, behaviour)

    def load_unicode(self, src):
        env, map_ast, rest = self._prelude(src, "UNICODE_FRAGMENTS")
        if not rest.startswith("let mut btree = BTreeMap :: new ( ) ; for ( ch , mut fragments ) in map . into_iter ( ) { "
                               "fragments . sort ( ) ; btree . insert ( ch , fragments ) ; } btree } )"):
            raise Unsupported("UNICODE_FRAGMENTS is no longer built by the plain insertion loop")
        entries = self.interp.ev(map_ast, env)
        for ch, frs in entries:
            self.unicode[ch] = list(frs)
        if "UNICODE_PROPERTIES" not in src or "Property::with_strong_fragments(*ch, frags.clone())" not in src:
            raise Unsupported("UNICODE_PROPERTIES is no longer derived by with_strong_fragments")

    # the property a character contributes as a NEIGHBOUR ------------------
    def signature_of(self, ch):
        """[(signal_int, [frags])] or None when the char has no property"""
        if ch in self.ascii:
            return self.ascii[ch][0]
        if ch in self.unicode:
            return [(4, self.unicode[ch])]
        return None

    def all_chars(self):
        return sorted(set(self.ascii) | set(self.unicode))

//! Native oracle used by engine T (tablesmt): evaluates the REAL svgbob code,
//! through its public API, on concrete inputs chosen by the Python side.
//!
//! stdin: one request per line
//!   N <9 chars as \u{..} escapes separated by spaces>   3x3 neighbourhood, row major;
//!        prints the fragments of the centre cell (cell (1,1)) in canonical form
//!   S <scale> <text with \n escaped as \\n>              prints to_svg_with_settings output on one line
//! stdout: one line per request.
use std::io::{self, BufRead, Write};
use svgbob::{buffer::Span, Cell, Fragment, FragmentBuffer, Point};

fn p(pt: Point) -> String {
    format!("{:.6},{:.6}", pt.x, pt.y)
}

fn canon(f: &Fragment) -> String {
    match f {
        Fragment::Line(l) => format!("line {} {} {}", p(l.start), p(l.end), l.is_broken as u8),
        Fragment::Arc(a) => format!(
            "arc {} {} {:.6} {} {}",
            p(a.start),
            p(a.end),
            a.radius,
            a.major_flag as u8,
            a.sweep_flag as u8
        ),
        Fragment::Circle(c) => format!("circle {} {:.6} {}", p(c.center), c.radius, c.is_filled as u8),
        Fragment::Polygon(pg) => {
            let pts: Vec<String> = pg.points.iter().map(|q| p(*q)).collect();
            let tags: Vec<String> = pg.tags.iter().map(|t| format!("{:?}", t)).collect();
            format!("polygon {} {} {}", pts.join(";"), pg.is_filled as u8, tags.join("+"))
        }
        Fragment::Rect(r) => format!(
            "rect {} {} {} {} {}",
            p(r.start),
            p(r.end),
            r.is_filled as u8,
            r.is_broken as u8,
            r.radius.map(|x| format!("{:.6}", x)).unwrap_or("-".into())
        ),
        Fragment::CellText(t) => format!("celltext {},{} {:?}", t.start.x, t.start.y, t.content),
        Fragment::Text(t) => format!("text {} {:?}", p(t.start), t.text),
        Fragment::MarkerLine(m) => format!(
            "markerline {} {} {} {:?} {:?}",
            p(m.line.start),
            p(m.line.end),
            m.line.is_broken as u8,
            m.start_marker,
            m.end_marker
        ),
    }
}

fn parse_char(tok: &str) -> char {
    let v = u32::from_str_radix(tok, 16).expect("hex scalar");
    char::from_u32(v).expect("scalar")
}

fn main() {
    let stdin = io::stdin();
    let out = io::stdout();
    let mut out = out.lock();
    for line in stdin.lock().lines() {
        let line = line.unwrap();
        let mut it = line.splitn(2, ' ');
        let cmd = it.next().unwrap_or("");
        let rest = it.next().unwrap_or("");
        match cmd {
            "N" => {
                let chars: Vec<char> = rest.split_whitespace().map(parse_char).collect();
                assert!(chars.len() == 9);
                let mut cells: Vec<(Cell, char)> = vec![];
                for (i, ch) in chars.iter().enumerate() {
                    if *ch != ' ' {
                        cells.push((Cell::new((i % 3) as i32, (i / 3) as i32), *ch));
                    }
                }
                let fb = FragmentBuffer::from(Span::from(cells));
                let mut frags: Vec<String> = fb
                    .get(&Cell::new(1, 1))
                    .map(|v| v.iter().map(|fs| canon(&fs.fragment)).collect())
                    .unwrap_or_default();
                frags.sort();
                writeln!(out, "{}", frags.join(" | ")).unwrap();
            }
            "S" => {
                let mut it2 = rest.splitn(2, ' ');
                let scale: f32 = it2.next().unwrap().parse().unwrap();
                let text = it2.next().unwrap_or("").replace("\\n", "\n");
                let mut settings = svgbob::Settings::default();
                settings.scale = scale;
                let svg = svgbob::to_svg_with_settings(&text, &settings);
                writeln!(out, "{}", svg.replace('\n', "\\n")).unwrap();
            }
            _ => writeln!(out, "ERR").unwrap(),
        }
    }
}

#!/bin/bash
# Offline setup: builds the Kani dependency cache and the native oracle.
set -e
cd "$(dirname "$0")"
export CARGO_NET_OFFLINE=true
python3 - <<'PY'
import sys
sys.path.insert(0, '.')
from vlib import core, tablesmt
t, s = core.ensure_dep_cache()
print("kani dependency cache:", t, "%.0fs" % s)
n = tablesmt.Native()
err = n.build()
print("native oracle:", "ok" if not err else err)
n.close()
sys.exit(1 if err else 0)
PY

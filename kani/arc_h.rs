//@ target: src/buffer/fragment_buffer/fragment/arc.rs
// Harnesses on Arc: constructor normalisation (C14), right-angle test and
// touching predicates under translation (C06, C05).
#![allow(warnings)]
use super::*;
use crate::kstub::*;

fn p8(nx: i32, ny: i32) -> Point {
    Point::new(nx as f32 * 0.125, ny as f32 * 0.125)
}

//@ harness: o14_5_arc_new_normalises props=C14,C01 tier=quick obl=O14.5 timeout=600 mem=8
//@ desc: Arc::new / new_with_sweep for ALL finite f32 endpoints: endpoints are swapped exactly when start > end in (y,x) order and the sweep flag is flipped exactly then; radius and major flag untouched; arcs_to(a,b) holds for the arc built from (a,b) and for its mirror image (b,a) it holds iff a == b ordering says so; never reaches util::ord's unreachable!
//@ encodes: Arc::new, Arc::new_with_sweep, Arc::sort_reorder_end_points, Arc::arcs_to, Point::cmp
#[kani::proof]
#[kani::stub(std::io::_print, crate::kstub::noop_print)]
fn o14_5_arc_new_normalises() {
    let (ax, ay, bx, by): (f32, f32, f32, f32) = (kani::any(), kani::any(), kani::any(), kani::any());
    kani::assume(ax.is_finite() && ay.is_finite() && bx.is_finite() && by.is_finite());
    let r: f32 = kani::any();
    kani::assume(r.is_finite());
    let sweep: bool = kani::any();
    let a = Point::new(ax, ay);
    let b = Point::new(bx, by);
    let arc = Arc::new_with_sweep(a, b, r, sweep);
    let swap = ay > by || (ay == by && ax > bx);
    kani::cover!(swap, "endpoints get swapped");
    kani::cover!(!swap && (ax != bx), "endpoints stay");
    if swap {
        assert!(arc.start.x == bx && arc.start.y == by && arc.end.x == ax && arc.end.y == ay, "O14.5 endpoints are swapped when start > end");
        assert!(arc.sweep_flag == !sweep, "O14.5 the sweep flag flips when the endpoints are swapped");
    } else {
        assert!(arc.start.x == ax && arc.start.y == ay && arc.end.x == bx && arc.end.y == by, "O14.5 endpoints stay when start <= end");
        assert!(arc.sweep_flag == sweep, "O14.5 the sweep flag stays when the endpoints stay");
    }
    assert!(arc.radius == r && !arc.major_flag, "O14.5 radius and major flag untouched");
    let plain = Arc::new(a, b, r);
    assert!(plain.sweep_flag == swap, "O14.5 Arc::new starts counter-clockwise (sweep false) before normalisation");
    assert!(plain.arcs_to(a, b), "O14.5 an arc arcs_to its own construction points");
}

//@ harness: o6_1_arc_predicates_shift props=C06,C05 tier=quick obl=O6.1 timeout=800 mem=12
//@ desc: quarter arcs as the corner characters emit them (eighth-unit lattice endpoints in a 3x3-cell window, radius 0.25..2 in eighths) evaluated at the origin and shifted by (k <= 64, n <= 64) cells: is_touching, has_endpoint, arcs_to give identical answers (is_aabb_right_angle_arc on ARBITRARY arcs is not asserted here: CBMC's sqrt is not bit-identical to libm's, a probe produced counterexamples that did not replay natively; the corner arcs of the tables are decided separately in o5_3_corner_arcs_are_right_angle)
//@ encodes: Arc::is_touching, Arc::has_endpoint, Arc::arcs_to, Arc::absolute_position
#[kani::proof]
#[kani::stub(std::io::_print, crate::kstub::noop_print)]
fn o6_1_arc_predicates_shift() {
    arc_shift(64, 64);
}

//@ harness: o6_1_arc_predicates_shift_400 props=C06,C05 tier=thorough obl=O6.1 timeout=3000 mem=14
//@ desc: as o6_1_arc_predicates_shift with k <= 400, n <= 200
//@ encodes: Arc::is_touching, Arc::has_endpoint, Arc::arcs_to
#[kani::proof]
#[kani::stub(std::io::_print, crate::kstub::noop_print)]
fn o6_1_arc_predicates_shift_400() {
    arc_shift(400, 200);
}

fn arc_shift(max_k: i32, max_n: i32) {
    let (ax, ay, bx, by) = (any_in(-8, 16), any_in(-16, 32), any_in(-8, 16), any_in(-16, 32));
    let (cx, cy, dx, dy) = (any_in(-8, 16), any_in(-16, 32), any_in(-8, 16), any_in(-16, 32));
    let r1 = any_in(2, 16) as f32 * 0.125;
    let r2 = any_in(2, 16) as f32 * 0.125;
    let a1 = Arc::new(p8(ax, ay), p8(bx, by), r1);
    let a2 = Arc::new(p8(cx, cy), p8(dx, dy), r2);
    let k = any_in(0, max_k);
    let n = any_in(0, max_n);
    let cell = Cell::new(k, n);
    let m1 = a1.absolute_position(cell);
    let m2 = a2.absolute_position(cell);
    assert!(m1.sweep_flag == a1.sweep_flag && m1.radius == a1.radius, "O6.2 Arc::absolute_position keeps flags and radius");
    assert!(a1.is_touching(&a2) == m1.is_touching(&m2), "O6.1 Arc::is_touching is translation invariant");
    assert!(a1.has_endpoint(a2.start) == m1.has_endpoint(m2.start), "O6.1 Arc::has_endpoint is translation invariant");
    assert!(a1.arcs_to(a2.start, a2.end) == m1.arcs_to(m2.start, m2.end), "O6.1 Arc::arcs_to is translation invariant");
    kani::cover!(a1.is_touching(&a2), "touching arcs are explored");
}

//@ harness: o5_3_corner_arcs_are_right_angle props=C05,C06 tier=quick obl=O5.3 timeout=800 mem=12
//@ desc: the four quarter arcs a rounded box corner yields (radius rh in {0.5,1} = horizontal half-extent, vertical extent 2*rh... i.e. arc between (x, y+r) and (x+r, y) style points as . , ' ` emit them: endpoints differ by (+-0.5, +-0.5) with radius 0.5) at any cell offset <= 400x200 are recognised by is_aabb_right_angle_arc for every orientation and construction order; powf stubbed by exact square
//@ encodes: Arc::is_aabb_right_angle_arc, Arc::center, Arc::new
#[kani::proof]
#[kani::stub(std::io::_print, crate::kstub::noop_print)]
#[kani::stub(f32::powf, crate::kstub::powf_sq)]
fn o5_3_corner_arcs_are_right_angle() {
    // corner arcs of ascii_map: arc(o, r, unit2), arc(r, k, unit2), arc(k, h, unit2), arc(h, o, unit2):
    // endpoints m +- (0.5, 0) and m +- (0, 0.5), radius 0.5
    let k = any_in(0, 400);
    let n = any_in(0, 200);
    let mx = k as f32 + 0.5;
    let my = 2.0 * n as f32 + 1.0;
    let sx: bool = kani::any();
    let sy: bool = kani::any();
    let hx = if sx { 0.5 } else { -0.5 };
    let hy = if sy { 0.5 } else { -0.5 };
    let p_h = Point::new(mx + hx, my); // on the horizontal edge
    let p_v = Point::new(mx, my + hy); // on the vertical edge
    let order: bool = kani::any();
    // the table writes each corner in the order that makes it bulge outward (counter-clockwise);
    // both construction orders are explored, the predicate must accept the arc either way
    let arc = if order { Arc::new(p_h, p_v, 0.5) } else { Arc::new(p_v, p_h, 0.5) };
    assert!(arc.is_aabb_right_angle_arc(), "O5.3 a quarter arc of a rounded corner is a right-angle arc at every position");
}

//@ harness: o1_5_right_angle_arc_total props=C01 tier=quick obl=O1.5 timeout=800 mem=10
//@ desc: Arc::is_aabb_right_angle_arc and Arc::center never panic for ANY lattice arc (eighth-unit endpoints in a 3x3-cell window at a cell offset <= 64x64, radius 0.125..4 in eighths), including arcs whose chord is longer than their diameter (centre = NaN) and zero-length chords; powf stubbed by exact square
//@ encodes: Arc::is_aabb_right_angle_arc, Arc::center, Arc::new
#[kani::proof]
#[kani::stub(std::io::_print, crate::kstub::noop_print)]
#[kani::stub(f32::powf, crate::kstub::powf_sq)]
fn o1_5_right_angle_arc_total() {
    let k = any_in(0, 64);
    let n = any_in(0, 64);
    let off = Point::new(k as f32, 2.0 * n as f32);
    let a = p8(any_in(-8, 16), any_in(-16, 32)) + off;
    let b = p8(any_in(-8, 16), any_in(-16, 32)) + off;
    let r = any_in(1, 32) as f32 * 0.125;
    let arc = Arc::new(a, b, r);
    let c = arc.center();
    kani::cover!(c.x != c.x, "an arc whose centre is NaN is explored");
    let ra = arc.is_aabb_right_angle_arc();
    kani::cover!(ra, "a right-angle arc is explored");
}

//@ target: src/buffer/cell_buffer.rs
// Harnesses on CellBuffer::get_size / bounds (C11, C12, C06).
#![allow(warnings)]
use super::*;
use crate::kstub::*;

fn any_scale() -> f32 {
    let mant: u8 = kani::any();
    kani::assume(mant >= 1);
    let e: u8 = kani::any();
    kani::assume(e <= 10);
    let pow = match e {
        0 => 0.0625,
        1 => 0.125,
        2 => 0.25,
        3 => 0.5,
        4 => 1.0,
        5 => 2.0,
        6 => 4.0,
        7 => 8.0,
        8 => 16.0,
        9 => 32.0,
        _ => 64.0,
    };
    mant as f32 * pow
}

fn settings_with_scale(s: f32) -> Settings {
    Settings {
        font_size: 14,
        font_family: String::new(),
        fill_color: String::new(),
        background: String::new(),
        stroke_color: String::new(),
        stroke_width: 2.0,
        scale: s,
        include_backdrop: true,
        include_styles: true,
        include_defs: true,
    }
}

//@ harness: o11_3_size_one_cell props=C11,C12,C06 tier=quick obl=O11.3 timeout=800 mem=14
//@ desc: CellBuffer with exactly one occupied cell (x <= 1000, y <= 1000, any char) and the empty CellBuffer, scale = any positive f32 with <= 8 significant bits, exponent -4..6: get_size = (scale*(x+2), 2*scale*(y+2)); empty => (2*scale, 4*scale); so size is linear in scale and moving the cell by (k,n) adds scale*(k, 2n)
//@ encodes: CellBuffer::get_size, CellBuffer::bounds, Cell::width, Cell::height
#[kani::proof]
#[kani::stub(std::io::_print, crate::kstub::noop_print)]
#[kani::unwind(4)]
fn o11_3_size_one_cell() {
    let s = any_scale();
    let settings = settings_with_scale(s);
    let empty = CellBuffer::new();
    let (w0, h0) = empty.get_size(&settings);
    assert!(w0 == 2.0 * s && h0 == 4.0 * s, "O12.1 an empty drawing gets the minimal two-cell canvas");
    let x = any_in(0, 1000);
    let y = any_in(0, 1000);
    let ch: char = kani::any();
    let mut cb = CellBuffer::new();
    cb.insert(Cell::new(x, y), ch);
    let (w, h) = cb.get_size(&settings);
    assert!(w == s * (x + 2) as f32, "O12.1 canvas width = scale x (last column + 2)");
    assert!(h == 2.0 * s * (y + 2) as f32, "O12.1 canvas height = 2 x scale x (last row + 2)");
    kani::cover!(s == 8.0 && x == 0 && y == 0, "default scale, single cell at the origin: 16 x 32");
    std::mem::forget(cb);
    std::mem::forget(empty);
    std::mem::forget(settings);
}

//@ harness: o11_3_size_grid props=C11,C12 tier=quick obl=O11.3 timeout=600 mem=10
//@ desc: CellBuffer with exactly one occupied cell (x, y <= 1000) and every scale of the property's grid {0.5, 1, 3, 8, 10, 20, 37.5} (chosen symbolically): get_size = (scale*(x+2), 2*scale*(y+2)) exactly - the same statement as o11_3_size_one_cell on the named scales only, so that it is also decided quickly on implementations that convert the scale to an integer or round the result
//@ encodes: CellBuffer::get_size, CellBuffer::bounds
#[kani::proof]
#[kani::stub(std::io::_print, crate::kstub::noop_print)]
#[kani::unwind(4)]
fn o11_3_size_grid() {
    let si: u8 = kani::any();
    kani::assume(si < 7);
    let s: f32 = match si {
        0 => 0.5,
        1 => 1.0,
        2 => 3.0,
        3 => 8.0,
        4 => 10.0,
        5 => 20.0,
        _ => 37.5,
    };
    let settings = settings_with_scale(s);
    let x = any_in(0, 1000);
    let y = any_in(0, 1000);
    let mut cb = CellBuffer::new();
    cb.insert(Cell::new(x, y), 'x');
    let (w, h) = cb.get_size(&settings);
    kani::cover!(si == 0 && x == 13, "scale 0.5 with an odd width");
    assert!(w == s * (x + 2) as f32, "O12.1 canvas width = scale x (last column + 2)");
    assert!(h == 2.0 * s * (y + 2) as f32, "O12.1 canvas height = 2 x scale x (last row + 2)");
    std::mem::forget(cb);
    std::mem::forget(settings);
}

// NOTE (tried, out of reach): get_size on a CellBuffer with two or three occupied cells at
// fixed positions ran out of 20 / 30 GB (BTreeMap insertion); that the canvas follows the
// right-most / bottom-most cell is therefore not decided, only the one-cell formula is.

// NOTE (tried, out of reach): From<StringBuffer> for CellBuffer on a row of three
// symbolic characters with escape_line stubbed by identity did not finish in
// 2400 s (String::from_iter + chars + BTreeMap inserts under symbolic conditions).

// ---------------------------------------------------------------------------
// C04: cells are (display column, row) of the non-blank, non-filler characters.
// escape_line (pom parser, out of Kani's reach) is stubbed by what it returns
// for a row without quotes: no escaped text, the row unchanged.

fn stub_escape_line(_line: usize, raw: &str) -> (Vec<(Cell, String)>, String) {
    let mut s = String::with_capacity(16);
    s.push_str(raw);
    (Vec::with_capacity(1), s)
}

//@ harness: o4_5_cells_are_columns2 props=C04 tier=stretch obl=O4.5 timeout=3400 mem=30
//@ desc: From<StringBuffer> for CellBuffer on one row of 2 symbolic characters (any scalar except the double quote; NUL filler and blanks included): the buffer holds exactly the non-blank, non-NUL characters, each at the column equal to its index in the column-expanded row (a NUL filler in column 0 keeps the next character in column 1); escape_line stubbed by identity (rows without quotes)
//@ encodes: From<StringBuffer> for CellBuffer
#[kani::proof]
#[kani::stub(std::io::_print, crate::kstub::noop_print)]
#[kani::unwind(12)]
#[kani::stub(crate::buffer::cell_buffer::CellBuffer::escape_line, stub_escape_line)]
fn o4_5_cells_are_columns2() {
    let cs: [char; 2] = [kani::any(), kani::any()];
    kani::assume(cs[0] != '"' && cs[1] != '"');
    let mut row: Vec<char> = Vec::with_capacity(2);
    row.push(cs[0]);
    row.push(cs[1]);
    let mut sb = StringBuffer::new();
    sb.push(row);
    let cb = CellBuffer::from(sb);
    let mut expected = 0;
    let mut i = 0;
    while i < 2 {
        let keep = cs[i] != '\0' && !cs[i].is_whitespace();
        let got = cb.get(&Cell::new(i as i32, 0));
        if keep {
            expected += 1;
            assert!(got == Some(&cs[i]), "O4.5 a non-blank character is stored at its own display column");
        } else {
            assert!(got.is_none(), "O4.5 blanks and NUL fillers are not cells");
        }
        i += 1;
    }
    kani::cover!(cs[0] == '\0' && expected == 1, "filler then char");
    assert!(cb.len() == expected, "O4.5 no other cell is created");
    std::mem::forget(cb);
}

//@ target: src/util.rs
// Harnesses for util.rs: the identifier character classes (class-attribute
// sink of C02/C08/C16), float ordering (C01) and collinearity (C09, C06).
#![allow(warnings)]
use super::*;
use crate::kstub::*;

fn is_xml_char(c: u32) -> bool {
    c == 0x9
        || c == 0xA
        || c == 0xD
        || (c >= 0x20 && c <= 0xD7FF)
        || (c >= 0xE000 && c <= 0xFFFD)
        || (c >= 0x10000 && c <= 0x10FFFF)
}

//@ harness: o2_3_ident_chars_attr_safe props=C02,C08,C16 tier=quick obl=O2.3 timeout=300 mem=8
//@ desc: every Unicode scalar accepted by the identifier grammar's character classes (alpha_or_underscore / alphanum_or_underscore, including the `ch as u8` truncation) is an XML Char and is none of < > & " ' or XML white space, so a class token can neither end the attribute value nor split into two tokens; all scalars, no bound
//@ encodes: util::parser::alpha_or_underscore, util::parser::alphanum_or_underscore, util::parser::underscore
#[kani::proof]
#[kani::stub(std::io::_print, crate::kstub::noop_print)]
fn o2_3_ident_chars_attr_safe() {
    let c: char = kani::any();
    let first = parser::alpha_or_underscore(c);
    let rest = parser::alphanum_or_underscore(c);
    kani::cover!(first && (c as u32) > 0xFF, "a non-Latin1 char is accepted through truncation");
    kani::cover!(rest && !first, "a digit is accepted in tail position only");
    if first || rest {
        let u = c as u32;
        assert!(is_xml_char(u), "O2.3 identifier chars are XML Chars");
        assert!(
            c != '<' && c != '>' && c != '&' && c != '"' && c != '\'',
            "O2.3 identifier chars are not markup-significant"
        );
        assert!(
            c != ' ' && c != '\t' && c != '\r' && c != '\n',
            "O2.3 identifier chars are not XML white space"
        );
    }
    if first {
        assert!(rest, "O2.3 every identifier-start char is an identifier char");
    }
    // the documented vocabulary is accepted
    let u = c as u32;
    if (c >= 'a' && c <= 'z') || (c >= 'A' && c <= 'Z') || c == '_' {
        assert!(first, "O2.3 ASCII letters and underscore start an identifier");
    }
    if c >= '0' && c <= '9' {
        assert!(rest && !first, "O2.3 digits continue but do not start an identifier");
    }
}

//@ target: src/buffer/cell_buffer/span.rs
// Harnesses on Span: one merge step joins exactly adjacent spans (C10),
// bounds/localize (C01, C06).
#![allow(warnings)]
use super::*;
use crate::kstub::*;

fn any_cell(max: i32) -> Cell {
    Cell::new(any_in(0, max), any_in(0, max))
}

/// grouping must depend on positions only; the characters are a letter for the first
/// cell of a span and a drawing character for the others (fully symbolic characters
/// made a version of svgbob that inspects them run out of 24 GB)
fn span_of(cells: &[Cell], n: usize) -> Span {
    let mut v: Vec<(Cell, char)> = Vec::with_capacity(8);
    let mut i = 0;
    while i < n {
        v.push((cells[i], if i == 0 { 'a' } else { '-' }));
        i += 1;
    }
    Span(v)
}

fn adj(a: Cell, b: Cell) -> bool {
    let dx = a.x - b.x;
    let dy = a.y - b.y;
    dx >= -1 && dx <= 1 && dy >= -1 && dy <= 1
}

//@ harness: o10_2_span_merge_step props=C10,C03,C05 tier=quick obl=O10.2 timeout=800 mem=14
//@ desc: spans of 1..2 symbolic cells each (first character a letter, second a drawing character) in an 8x8 window: Span::can_merge(a,b) <=> some cell of a is 8-adjacent to some cell of b; Span::merge returns Some exactly then and the result is a's cells followed by b's cells (nothing lost, nothing invented); symmetric
//@ encodes: Span::can_merge, Span::merge, Span::merge_no_check, Span::is_adjacent, Cell::is_adjacent
#[kani::proof]
#[kani::stub(std::io::_print, crate::kstub::noop_print)]
#[kani::unwind(6)]
fn o10_2_span_merge_step() {
    let ca = [any_cell(8), any_cell(8)];
    let cb = [any_cell(8), any_cell(8)];
    let na: usize = kani::any();
    let nb: usize = kani::any();
    kani::assume(na >= 1 && na <= 2 && nb >= 1 && nb <= 2);
    let a = span_of(&ca, na);
    let b = span_of(&cb, nb);
    let mut expected = false;
    let mut i = 0;
    while i < na {
        let mut j = 0;
        while j < nb {
            if adj(ca[i], cb[j]) {
                expected = true;
            }
            j += 1;
        }
        i += 1;
    }
    let got = a.can_merge(&b);
    assert!(got == expected, "O10.2 spans can merge iff some pair of their cells is 8-adjacent");
    assert!(b.can_merge(&a) == got, "O10.2 span adjacency is symmetric");
    kani::cover!(got && na == 2 && nb == 2, "two 2-cell spans merge");
    kani::cover!(!got, "separated spans");
    match a.merge(&b) {
        Some(m) => {
            assert!(expected, "O10.2 only adjacent spans are merged");
            assert!(m.len() == na + nb, "O10.2 merged span has all cells of both");
            let mut i = 0;
            while i < na {
                assert!(m[i].0 == ca[i], "O10.2 merged span starts with a's cells");
                i += 1;
            }
            let mut j = 0;
            while j < nb {
                assert!(m[na + j].0 == cb[j], "O10.2 merged span continues with b's cells");
                j += 1;
            }
            std::mem::forget(m);
        }
        None => assert!(!expected, "O10.2 adjacent spans are merged"),
    }
    std::mem::forget(a);
    std::mem::forget(b);
}

//@ harness: o10_2_span_merge_1x1 props=C10 tier=quick obl=O10.2 timeout=800 mem=12
//@ desc: two one-cell spans (cells anywhere in a 1000x1000 window, characters: letter/letter, letter/drawing char, drawing/drawing): Span::can_merge <=> the cells are 8-adjacent (Chebyshev distance <= 1, exact integer oracle); Span::merge is Some exactly then; in particular two labels one blank apart, or cells two apart in any direction, are NOT joined
//@ encodes: Span::can_merge, Span::merge, Span::new, Cell::is_adjacent
#[kani::proof]
#[kani::unwind(4)]
#[kani::stub(std::io::_print, crate::kstub::noop_print)]
fn o10_2_span_merge_1x1() {
    let a = any_cell(1000);
    let b = any_cell(1000);
    let kind: u8 = kani::any();
    kani::assume(kind < 3);
    let (ch_a, ch_b) = match kind {
        0 => ('a', 'b'),
        1 => ('a', '-'),
        _ => ('|', '-'),
    };
    let expected = adj(a, b);
    let (got, merged) = match kind {
        0 => {
            let (sa, sb) = (Span::new(a, 'a'), Span::new(b, 'b'));
            (sa.can_merge(&sb), sa.merge(&sb).is_some())
        }
        1 => {
            let (sa, sb) = (Span::new(a, 'a'), Span::new(b, '-'));
            (sa.can_merge(&sb), sa.merge(&sb).is_some())
        }
        _ => {
            let (sa, sb) = (Span::new(a, '|'), Span::new(b, '-'));
            (sa.can_merge(&sb), sa.merge(&sb).is_some())
        }
    };
    kani::cover!(!got && a.y == b.y && (a.x - b.x == 2), "same row, one blank between");
    kani::cover!(got, "adjacent cells");
    assert!(got == expected, "O10.2 one-cell spans can merge iff their cells are 8-adjacent");
    assert!(merged == expected, "O10.2 one-cell spans merge iff their cells are 8-adjacent");
}

//@ harness: o1_6_span_bounds_total props=C01,C06 tier=quick obl=O1.6 timeout=800 mem=12
//@ desc: for every non-empty span of 1..3 symbolic cells (coords 0..1000): bounds() is Some((min x, min y),(max x, max y)) so top_left()'s expect cannot fire; localize() subtracts exactly the top-left from every cell and keeps the characters and order; shifting all cells by (k,n) <= 400x200 shifts bounds by (k,n) and leaves localize() unchanged
//@ encodes: Span::bounds, Span::localize, Span::top_left (via localize_point), Cell::localize_cell
#[kani::proof]
#[kani::stub(std::io::_print, crate::kstub::noop_print)]
#[kani::unwind(6)]
#[kani::stub(std::vec::Vec::new, crate::kstub::vec_new_cap)]
#[kani::stub(std::vec::Vec::push, crate::kstub::push_nogrow)]
fn o1_6_span_bounds_total() {
    let cs = [any_cell(1000), any_cell(1000), any_cell(1000)];
    let n: usize = kani::any();
    kani::assume(n >= 1 && n <= 3);
    let k = any_in(0, 400);
    let nn = any_in(0, 200);
    let s = span_of(&cs, n);
    let moved = [
        Cell::new(cs[0].x + k, cs[0].y + nn),
        Cell::new(cs[1].x + k, cs[1].y + nn),
        Cell::new(cs[2].x + k, cs[2].y + nn),
    ];
    let s2 = span_of(&moved, n);
    let mut minx = cs[0].x;
    let mut miny = cs[0].y;
    let mut maxx = cs[0].x;
    let mut maxy = cs[0].y;
    let mut i = 1;
    while i < n {
        if cs[i].x < minx { minx = cs[i].x; }
        if cs[i].y < miny { miny = cs[i].y; }
        if cs[i].x > maxx { maxx = cs[i].x; }
        if cs[i].y > maxy { maxy = cs[i].y; }
        i += 1;
    }
    match s.bounds() {
        Some((tl, br)) => {
            assert!(tl.x == minx && tl.y == miny && br.x == maxx && br.y == maxy, "O1.6 bounds are the min/max cell coordinates");
        }
        None => assert!(false, "O1.6 a non-empty span has bounds"),
    }
    match s2.bounds() {
        Some((tl, br)) => {
            assert!(tl.x == minx + k && tl.y == miny + nn && br.x == maxx + k && br.y == maxy + nn, "O6.3 bounds shift with the span");
        }
        None => assert!(false, "O1.6 a non-empty span has bounds"),
    }
    let p = s.localize_point(Point::new(0.0, 0.0)); // exercises top_left().expect
    let l1 = s.localize();
    let l2 = s2.localize();
    assert!(l1.len() == n && l2.len() == n, "O6.3 localize keeps every cell");
    let mut i = 0;
    while i < n {
        assert!(l1[i].0.x == cs[i].x - minx && l1[i].0.y == cs[i].y - miny, "O6.3 localize subtracts the top-left cell");
        assert!(l1[i].0 == l2[i].0, "O6.3 localize is translation invariant");
        i += 1;
    }
    kani::cover!(n == 3 && minx != cs[0].x, "three cells, first is not leftmost");
    std::mem::forget(l1);
    std::mem::forget(l2);
}

//@ target: src/buffer/fragment_buffer/fragment.rs
// Harnesses on the Fragment enum dispatchers: scale (C11), absolute_position
// (C06), can_fit (C10, C16), is_contacting (C05).
#![allow(warnings)]
use super::*;
use crate::kstub::*;

fn p4(nx: i32, ny: i32) -> Point {
    Point::new(nx as f32 * 0.25, ny as f32 * 0.25)
}

/// a positive scale with at most 8 significant bits and exponent in [-4, 10]:
/// covers 0.5, 1, 3, 8, 10, 20, 37.5 and the CLI's 8*k.  With lattice payloads
/// (<= 13 significant bits) every product is exact in f32, so any
/// mathematically equivalent implementation of scale gives identical bits.
fn any_scale() -> f32 {
    let mant: u8 = kani::any();
    kani::assume(mant >= 1);
    let e: u8 = kani::any();
    kani::assume(e <= 14);
    let pow = match e {
        0 => 0.0625,
        1 => 0.125,
        2 => 0.25,
        3 => 0.5,
        4 => 1.0,
        5 => 2.0,
        6 => 4.0,
        7 => 8.0,
        8 => 16.0,
        9 => 32.0,
        10 => 64.0,
        11 => 128.0,
        12 => 256.0,
        13 => 512.0,
        _ => 1024.0,
    };
    mant as f32 * pow
}

const MAXQ: i32 = 1600; // 400 cells wide / 200 rows high, in quarter units

fn any_pt() -> Point {
    p4(any_in(0, MAXQ), any_in(0, MAXQ))
}

fn scaled(p: Point, s: f32) -> Point {
    Point::new(p.x * s, p.y * s)
}

fn same(a: Point, b: Point) -> bool {
    a.x == b.x && a.y == b.y
}

// ---------------------------------------------------------------------------
// C11

//@ harness: o11_1_scale_line props=C11 tier=quick obl=O11.1 timeout=800 mem=10
//@ desc: Fragment::scale on Line and MarkerLine (lattice payload <= 400 cells, scale = any positive f32 with <= 8 significant bits and exponent -4..10): every coordinate is multiplied by the scale, endpoints are not reordered, dashedness and markers unchanged, variant unchanged
//@ encodes: Fragment::scale, Line::scale, MarkerLine::scale, Point::scale
#[kani::proof]
#[kani::stub(std::io::_print, crate::kstub::noop_print)]
fn o11_1_scale_line() {
    let s = any_scale();
    let (a, b) = (any_pt(), any_pt());
    let br: bool = kani::any();
    let l = Fragment::Line(Line::new_noswap(a, b, br));
    match l.scale(s) {
        Fragment::Line(r) => {
            assert!(same(r.start, scaled(a, s)) && same(r.end, scaled(b, s)), "O11.1 Line coordinates are multiplied by the scale");
            assert!(r.is_broken == br, "O11.1 Line dashedness unchanged by scale");
        }
        _ => assert!(false, "O11.1 scale keeps the fragment kind"),
    }
    let mk: bool = kani::any();
    let marker = if mk { Some(Marker::Circle) } else { None };
    let ml = marker_line(a, b, br, None, marker.clone());
    match ml.scale(s) {
        Fragment::MarkerLine(r) => {
            assert!(same(r.line.start, scaled(a, s)) && same(r.line.end, scaled(b, s)), "O11.1 MarkerLine coordinates are multiplied by the scale");
            assert!(r.line.is_broken == br && r.start_marker.is_none() && r.end_marker == marker, "O11.1 MarkerLine flags and markers unchanged by scale");
        }
        _ => assert!(false, "O11.1 scale keeps the fragment kind"),
    }
    kani::cover!(s == 37.5, "scale 37.5 is in the explored set");
    kani::cover!(s == 0.5, "scale 0.5 is in the explored set");
}

//@ harness: o11_1_scale_arc_circle props=C11 tier=quick obl=O11.1 timeout=800 mem=10
//@ desc: Fragment::scale on Arc and Circle (lattice payloads, radius n/8 <= 50 cells, same scale set): endpoints/centre and radius multiplied by the scale; sweep/major flags, fill flag unchanged
//@ encodes: Fragment::scale, Arc::scale, Circle::scale
#[kani::proof]
#[kani::stub(std::io::_print, crate::kstub::noop_print)]
fn o11_1_scale_arc_circle() {
    let s = any_scale();
    let (a, b) = (any_pt(), any_pt());
    let r8 = any_in(1, 400) as f32 * 0.125;
    let arc0 = Arc::new(a, b, r8);
    let (sa, sb, sw, mj) = (arc0.start, arc0.end, arc0.sweep_flag, arc0.major_flag);
    match Fragment::Arc(arc0).scale(s) {
        Fragment::Arc(r) => {
            assert!(same(r.start, scaled(sa, s)) && same(r.end, scaled(sb, s)), "O11.1 Arc endpoints are multiplied by the scale");
            assert!(r.radius == r8 * s, "O11.1 Arc radius is multiplied by the scale");
            assert!(r.sweep_flag == sw && r.major_flag == mj, "O11.1 Arc flags unchanged by scale");
        }
        _ => assert!(false, "O11.1 scale keeps the fragment kind"),
    }
    let filled: bool = kani::any();
    match Fragment::Circle(Circle::new(a, r8, filled)).scale(s) {
        Fragment::Circle(c) => {
            assert!(same(c.center, scaled(a, s)), "O11.1 Circle centre is multiplied by the scale");
            assert!(c.radius == r8 * s, "O11.1 Circle radius is multiplied by the scale");
            assert!(c.is_filled == filled, "O11.1 Circle fill unchanged by scale");
        }
        _ => assert!(false, "O11.1 scale keeps the fragment kind"),
    }
}

//@ harness: o11_1_scale_rect props=C11 tier=quick obl=O11.1 timeout=800 mem=10
//@ desc: Fragment::scale on Rect, sharp and rounded (lattice corners <= 400 cells, radius n/8, same scale set): corners and rx multiplied by the scale, fill/dash flags unchanged
//@ encodes: Fragment::scale, Rect::scale
#[kani::proof]
#[kani::stub(std::io::_print, crate::kstub::noop_print)]
fn o11_1_scale_rect() {
    let s = any_scale();
    let (a, b) = (any_pt(), any_pt());
    let (fl, br): (bool, bool) = (kani::any(), kani::any());
    let rounded: bool = kani::any();
    let r8 = any_in(1, 16) as f32 * 0.125;
    let r0 = Rect { start: a, end: b, is_filled: fl, radius: if rounded { Some(r8) } else { None }, is_broken: br };
    match Fragment::Rect(r0).scale(s) {
        Fragment::Rect(r) => {
            assert!(same(r.start, scaled(a, s)) && same(r.end, scaled(b, s)), "O11.1 Rect corners are multiplied by the scale");
            assert!(r.is_filled == fl && r.is_broken == br, "O11.1 Rect flags unchanged by scale");
            match r.radius {
                Some(x) => assert!(rounded && x == r8 * s, "O11.1 Rect corner radius is multiplied by the scale"),
                None => assert!(!rounded, "O11.1 Rect keeps its corner radius"),
            }
        }
        _ => assert!(false, "O11.1 scale keeps the fragment kind"),
    }
}

//@ harness: o11_2_rect_size_linear props=C11 tier=thorough obl=O11.2 timeout=1500 mem=10
//@ desc: the rendered width/height of a scaled Rect (differences of its scaled corners) equal scale x the unscaled width/height, for lattice corners <= 400 cells and every scale of the property's grid {0.5, 1, 3, 8, 10, 20, 37.5}: rendered sizes, not just stored fields, scale linearly
//@ encodes: Rect::scale, Rect::width, Rect::height
#[kani::proof]
#[kani::stub(std::io::_print, crate::kstub::noop_print)]
fn o11_2_rect_size_linear() {
    let si: u8 = kani::any();
    kani::assume(si < 7);
    let s: f32 = match si {
        0 => 0.5,
        1 => 1.0,
        2 => 3.0,
        3 => 8.0,
        4 => 10.0,
        5 => 20.0,
        _ => 37.5,
    };
    let (a, b) = (any_pt(), any_pt());
    kani::assume(a.x <= b.x && a.y <= b.y);
    let r0 = Rect { start: a, end: b, is_filled: false, radius: None, is_broken: false };
    let (w0, h0) = (r0.width(), r0.height());
    let r = r0.scale(s);
    assert!(r.width() == w0 * s && r.height() == h0 * s, "O11.2 rendered Rect width/height scale linearly");
}

//@ harness: o11_1_scale_polygon_text props=C11 tier=quick obl=O11.1 timeout=800 mem=12
//@ desc: Fragment::scale on Polygon (3 lattice points, fill flag, one tag), Text and CellText (1 char): every point / the anchor multiplied by the scale; CellText becomes a Text anchored at scale x (cell point q); fill, tags, text unchanged
//@ encodes: Fragment::scale, Polygon::scale, Text::scale, From<CellText> for Text
#[kani::proof]
#[kani::stub(std::io::_print, crate::kstub::noop_print)]
#[kani::unwind(6)]
fn o11_1_scale_polygon_text() {
    let s = any_scale();
    let (a, b, c) = (any_pt(), any_pt(), any_pt());
    let fl: bool = kani::any();
    let mut pts = Vec::with_capacity(3);
    pts.push(a);
    pts.push(b);
    pts.push(c);
    let mut tags = Vec::with_capacity(1);
    tags.push(PolygonTag::ArrowLeft);
    let pg = Fragment::Polygon(Polygon::new(pts, fl, tags));
    match pg.scale(s) {
        Fragment::Polygon(r) => {
            assert!(r.points.len() == 3, "O11.1 Polygon keeps its points");
            assert!(same(r.points[0], scaled(a, s)) && same(r.points[1], scaled(b, s)) && same(r.points[2], scaled(c, s)), "O11.1 Polygon points are multiplied by the scale");
            assert!(r.is_filled == fl && r.tags.len() == 1 && r.tags[0] == PolygonTag::ArrowLeft, "O11.1 Polygon fill and tags unchanged by scale");
            std::mem::forget(r);
        }
        _ => assert!(false, "O11.1 scale keeps the fragment kind"),
    }
    let mut t = String::with_capacity(4);
    t.push('a');
    let tx = Fragment::Text(Text::new(a, t));
    match tx.scale(s) {
        Fragment::Text(r) => {
            assert!(same(r.start, scaled(a, s)), "O11.1 Text anchor is multiplied by the scale");
            assert!(r.text.len() == 1 && r.text.as_bytes()[0] == b'a', "O11.1 Text content unchanged by scale");
            std::mem::forget(r);
        }
        _ => assert!(false, "O11.1 scaled Text stays Text"),
    }
    let cx = any_in(0, 400);
    let cy = any_in(0, 200);
    let mut t2 = String::with_capacity(4);
    t2.push('b');
    let ct = Fragment::CellText(CellText::new(Cell::new(cx, cy), t2));
    match ct.scale(s) {
        Fragment::Text(r) => {
            let q = Cell::new(cx, cy).q();
            assert!(same(r.start, scaled(q, s)), "O11.1 CellText becomes Text anchored at scale x its cell anchor");
            assert!(r.text.len() == 1 && r.text.as_bytes()[0] == b'b', "O11.1 CellText content unchanged by scale");
            std::mem::forget(r);
        }
        _ => assert!(false, "O11.1 scaled CellText becomes Text"),
    }
    std::mem::forget(pg);
    std::mem::forget(tx);
    std::mem::forget(ct);
}

// ---------------------------------------------------------------------------
// C06: absolute_position adds exactly the cell origin, nothing else

fn any_local() -> Point {
    // in-cell and neighbouring-cell lattice points, eighth units
    Point::new(any_in(-8, 16) as f32 * 0.125, any_in(-16, 32) as f32 * 0.125)
}

fn moved(p: Point, k: i32, n: i32) -> Point {
    Point::new(p.x + k as f32, p.y + 2.0 * n as f32)
}

//@ harness: o6_2_abs_position_shapes props=C06 tier=quick obl=O6.2 timeout=800 mem=12
//@ desc: Fragment::absolute_position(cell (k<=400, n<=200)) on Line, MarkerLine, Arc, Circle, Rect (sharp/rounded) with eighth-unit lattice payloads around the cell: adds exactly (k, 2n) to every coordinate; radius, flags, markers, variant unchanged; endpoints not reordered
//@ encodes: Fragment::absolute_position, Line/MarkerLine/Arc/Circle/Rect::absolute_position, Cell::absolute_position
#[kani::proof]
#[kani::stub(std::io::_print, crate::kstub::noop_print)]
fn o6_2_abs_position_shapes() {
    let k = any_in(0, 400);
    let n = any_in(0, 200);
    let cell = Cell::new(k, n);
    let (a, b) = (any_local(), any_local());
    let br: bool = kani::any();
    match Fragment::Line(Line::new_noswap(a, b, br)).absolute_position(cell) {
        Fragment::Line(r) => assert!(same(r.start, moved(a, k, n)) && same(r.end, moved(b, k, n)) && r.is_broken == br, "O6.2 Line::absolute_position adds exactly (k, 2n)"),
        _ => assert!(false, "O6.2 absolute_position keeps the kind"),
    }
    match marker_line(a, b, br, None, Some(Marker::Arrow)).absolute_position(cell) {
        Fragment::MarkerLine(r) => assert!(
            same(r.line.start, moved(a, k, n)) && same(r.line.end, moved(b, k, n)) && r.line.is_broken == br
                && r.start_marker.is_none() && r.end_marker == Some(Marker::Arrow),
            "O6.2 MarkerLine::absolute_position adds exactly (k, 2n)"
        ),
        _ => assert!(false, "O6.2 absolute_position keeps the kind"),
    }
    let rad = any_in(1, 32) as f32 * 0.125;
    let arc0 = Arc::new(a, b, rad);
    let (sa, sb, sw) = (arc0.start, arc0.end, arc0.sweep_flag);
    match Fragment::Arc(arc0).absolute_position(cell) {
        Fragment::Arc(r) => assert!(
            same(r.start, moved(sa, k, n)) && same(r.end, moved(sb, k, n)) && r.radius == rad && r.sweep_flag == sw && !r.major_flag,
            "O6.2 Arc::absolute_position adds exactly (k, 2n) and keeps radius and flags"
        ),
        _ => assert!(false, "O6.2 absolute_position keeps the kind"),
    }
    let fl: bool = kani::any();
    match Fragment::Circle(Circle::new(a, rad, fl)).absolute_position(cell) {
        Fragment::Circle(r) => assert!(same(r.center, moved(a, k, n)) && r.radius == rad && r.is_filled == fl, "O6.2 Circle::absolute_position adds exactly (k, 2n)"),
        _ => assert!(false, "O6.2 absolute_position keeps the kind"),
    }
    let rounded: bool = kani::any();
    let r0 = if rounded { Rect::rounded_new(a, b, fl, rad, br) } else { Rect::new(a, b, fl, br) };
    let (ra, rb) = (r0.start, r0.end);
    match Fragment::Rect(r0).absolute_position(cell) {
        Fragment::Rect(r) => assert!(
            same(r.start, moved(ra, k, n)) && same(r.end, moved(rb, k, n)) && r.is_filled == fl && r.is_broken == br
                && (if rounded { r.radius == Some(rad) } else { r.radius.is_none() }),
            "O6.2 Rect::absolute_position adds exactly (k, 2n)"
        ),
        _ => assert!(false, "O6.2 absolute_position keeps the kind"),
    }
}

//@ harness: o6_2_abs_position_poly_text props=C06 tier=quick obl=O6.2 timeout=800 mem=12
//@ desc: Fragment::absolute_position(cell (k<=400, n<=200)) on Polygon (3 points), Text, CellText: adds exactly (k, 2n) to every point / (k, n) to the start cell; fill, tags, content unchanged
//@ encodes: Fragment::absolute_position, Polygon::absolute_position, Text::absolute_position, CellText::absolute_position
#[kani::proof]
#[kani::stub(std::io::_print, crate::kstub::noop_print)]
#[kani::unwind(6)]
fn o6_2_abs_position_poly_text() {
    let k = any_in(0, 400);
    let n = any_in(0, 200);
    let cell = Cell::new(k, n);
    let (a, b, c) = (any_local(), any_local(), any_local());
    let fl: bool = kani::any();
    let mut pts = Vec::with_capacity(3);
    pts.push(a);
    pts.push(b);
    pts.push(c);
    let mut tags = Vec::with_capacity(1);
    tags.push(PolygonTag::ArrowTop);
    let pg = Fragment::Polygon(Polygon::new(pts, fl, tags));
    match pg.absolute_position(cell) {
        Fragment::Polygon(r) => {
            assert!(r.points.len() == 3 && same(r.points[0], moved(a, k, n)) && same(r.points[1], moved(b, k, n)) && same(r.points[2], moved(c, k, n)), "O6.2 Polygon::absolute_position adds exactly (k, 2n) to every point");
            assert!(r.is_filled == fl && r.tags.len() == 1 && r.tags[0] == PolygonTag::ArrowTop, "O6.2 Polygon fill and tags unchanged");
            std::mem::forget(r);
        }
        _ => assert!(false, "O6.2 absolute_position keeps the kind"),
    }
    let mut t = String::with_capacity(4);
    t.push('a');
    let tx = Fragment::Text(Text::new(a, t));
    match tx.absolute_position(cell) {
        Fragment::Text(r) => {
            assert!(same(r.start, moved(a, k, n)) && r.text.len() == 1 && r.text.as_bytes()[0] == b'a', "O6.2 Text::absolute_position adds exactly (k, 2n)");
            std::mem::forget(r);
        }
        _ => assert!(false, "O6.2 absolute_position keeps the kind"),
    }
    let (lx, ly) = (any_in(0, 3), any_in(0, 3));
    let mut t2 = String::with_capacity(4);
    t2.push('b');
    let ct = Fragment::CellText(CellText::new(Cell::new(lx, ly), t2));
    match ct.absolute_position(cell) {
        Fragment::CellText(r) => {
            assert!(r.start.x == lx + k && r.start.y == ly + n && r.content.len() == 1 && r.content.as_bytes()[0] == b'b', "O6.2 CellText::absolute_position adds exactly (k, n) cells");
            std::mem::forget(r);
        }
        _ => assert!(false, "O6.2 absolute_position keeps the kind"),
    }
    std::mem::forget(pg);
    std::mem::forget(tx);
    std::mem::forget(ct);
}

// ---------------------------------------------------------------------------
// C10 / C16: can_fit is bounding-box containment

/// The variants of container and content are CONCRETE at every call of can_fit
/// (one call per combination): a symbolic enum discriminant makes CBMC execute
/// the bounds() code of all eight fragment kinds, which is what made the first
/// version of this harness time out.
fn fit_case(cont_rect: bool, kind: u8) {
    let offx = any_in(0, 64) * 4;
    let offy = any_in(0, 64) * 8;
    let (cx0, cy0, cx1, cy1) = (any_in(0, 64), any_in(0, 64), any_in(0, 64), any_in(0, 64));
    kani::assume(cx0 < cx1 && cy0 < cy1);
    let cr = any_in(1, 16);
    let (x0, y0, x1, y1) = (any_in(0, 64), any_in(0, 64), any_in(0, 64), any_in(0, 64));
    let r2 = any_in(1, 8);
    let (bx0, by0, bx1, by1) = if cont_rect {
        (cx0, cy0, cx1, cy1)
    } else {
        (cx0 + 16 - cr, cy0 + 16 - cr, cx0 + 16 + cr, cy0 + 16 + cr)
    };
    let (ox0, oy0, ox1, oy1) = match kind {
        0 => {
            kani::assume(x0 <= x1 && y0 <= y1);
            (x0, y0, x1, y1)
        }
        1 => (if x0 < x1 { x0 } else { x1 }, if y0 < y1 { y0 } else { y1 }, if x0 < x1 { x1 } else { x0 }, if y0 < y1 { y1 } else { y0 }),
        _ => (x0 - r2, y0 - r2, x0 + r2, y0 + r2),
    };
    let expected = bx0 <= ox0 && by0 <= oy0 && bx1 >= ox1 && by1 >= oy1;
    let got = if cont_rect {
        let container = rect(p4(offx + cx0, offy + cy0), p4(offx + cx1, offy + cy1), false, false);
        match kind {
            0 => container.can_fit(&rect(p4(offx + x0, offy + y0), p4(offx + x1, offy + y1), false, false)),
            1 => container.can_fit(&line(p4(offx + x0, offy + y0), p4(offx + x1, offy + y1))),
            _ => container.can_fit(&circle(p4(offx + x0, offy + y0), r2 as f32 * 0.25, true)),
        }
    } else {
        let container = circle(p4(offx + cx0 + 16, offy + cy0 + 16), cr as f32 * 0.25, false);
        match kind {
            0 => container.can_fit(&rect(p4(offx + x0, offy + y0), p4(offx + x1, offy + y1), false, false)),
            1 => container.can_fit(&line(p4(offx + x0, offy + y0), p4(offx + x1, offy + y1))),
            _ => container.can_fit(&circle(p4(offx + x0, offy + y0), r2 as f32 * 0.25, true)),
        }
    };
    kani::cover!(got, "something fits");
    kani::cover!(!got, "something does not fit");
    assert!(got == expected, "O10.4 can_fit is exactly bounding-box containment");
}

//@ harness: o10_4_can_fit_rect props=C10,C16 tier=quick obl=O10.4 timeout=800 mem=10
//@ desc: container Rect, content Rect / Line / Circle (each combination a separate call with concrete variants), lattice payloads 0..64 quarter units at a cell offset <= 64x64: Fragment::can_fit <=> the content's bounding box lies inside the container's (integer oracle)
//@ encodes: Fragment::can_fit, Rect::bounds, Circle::bounds, Line::bounds
#[kani::proof]
#[kani::stub(std::io::_print, crate::kstub::noop_print)]
fn o10_4_can_fit_rect() {
    let kind: u8 = kani::any();
    kani::assume(kind < 3);
    match kind {
        0 => fit_case(true, 0),
        1 => fit_case(true, 1),
        _ => fit_case(true, 2),
    }
}

//@ harness: o10_4_can_fit_circle props=C10,C16 tier=quick obl=O10.4 timeout=800 mem=10
//@ desc: container Circle, content Rect / Line / Circle, same bounds as o10_4_can_fit_rect
//@ encodes: Fragment::can_fit, Rect::bounds, Circle::bounds, Line::bounds
#[kani::proof]
#[kani::stub(std::io::_print, crate::kstub::noop_print)]
fn o10_4_can_fit_circle() {
    let kind: u8 = kani::any();
    kani::assume(kind < 3);
    match kind {
        0 => fit_case(false, 0),
        1 => fit_case(false, 1),
        _ => fit_case(false, 2),
    }
}

// ---------------------------------------------------------------------------
// C05: grouping predicate between lines and arcs

//@ harness: o5_5_contact_line_arc props=C05 tier=quick obl=O5.5 timeout=800 mem=12
//@ desc: Fragment::is_contacting between a lattice Line and a lattice Arc (coords 0..32 quarter units + offset <= 64 cells) <=> they share an endpoint; between two Arcs likewise; symmetric
//@ encodes: Fragment::is_contacting, Line::is_touching_arc, Arc::is_touching
#[kani::proof]
#[kani::stub(std::io::_print, crate::kstub::noop_print)]
fn o5_5_contact_line_arc() {
    let offx = any_in(0, 64) * 4;
    let offy = any_in(0, 64) * 8;
    let q = |hi: i32| any_in(0, hi);
    let (ax, ay, bx, by) = (q(32), q(32), q(32), q(32));
    let (cx, cy, dx, dy) = (q(32), q(32), q(32), q(32));
    kani::assume((ax, ay) != (bx, by) && (cx, cy) != (dx, dy));
    let l = line(p4(offx + ax, offy + ay), p4(offx + bx, offy + by));
    let a = arc(p4(offx + cx, offy + cy), p4(offx + dx, offy + dy), 0.5);
    let a2 = arc(p4(offx + ax, offy + ay), p4(offx + bx, offy + by), 1.0);
    let share = (ax, ay) == (cx, cy) || (ax, ay) == (dx, dy) || (bx, by) == (cx, cy) || (bx, by) == (dx, dy);
    kani::cover!(share, "line and arc share an endpoint");
    assert!(l.is_contacting(&a) == share, "O5.5 a line and an arc are in contact iff they share an endpoint");
    assert!(a.is_contacting(&l) == share, "O5.5 line/arc contact is symmetric");
    assert!(a.is_contacting(&a2) == share, "O5.5 two arcs are in contact iff they share an endpoint");
}

// ---------------------------------------------------------------------------
// C14: the Fragment-level dispatch of line + bullet circle

//@ harness: o14_6_merge_dispatch_circle props=C14 tier=quick obl=O14.4 timeout=800 mem=12
//@ desc: Fragment::merge and Fragment::is_contacting on a lattice Line and a bullet Circle (circle at a cell centre, radius 0.25..0.75, vertical or horizontal line of 1..16 quarter-unit steps ending 0..4 steps from the centre): merge(line, circle) and merge(circle, line) both give the same MarkerLine ending at the circle centre (the dispatcher routes both argument orders to Line::merge_circle); is_contacting is symmetric; atan stubbed by atan_axis
//@ encodes: Fragment::merge, Fragment::is_contacting, Line::merge_circle, Line::is_touching_circle
#[kani::proof]
#[kani::stub(std::io::_print, crate::kstub::noop_print)]
#[kani::stub(f32::atan, crate::kstub::atan_axis)]
fn o14_6_merge_dispatch_circle() {
    let vertical: bool = kani::any();
    let (mx, my) = (any_in(0, 16) * 4 + 2, any_in(5, 16) * 8 + 4);
    let r8 = any_in(2, 6);
    let filled: bool = kani::any();
    let half = any_in(0, 4);
    let len = any_in(1, 16);
    let (nx, ny, fx, fy) = if vertical { (mx, my - half, mx, my - half - len) } else { (mx - if half > 2 { 2 } else { half }, my, mx - (if half > 2 { 2 } else { half }) - len, my) };
    let l = line(p4(nx, ny), p4(fx, fy));
    let c = circle(p4(mx, my), r8 as f32 * 0.125, filled);
    let m1 = l.merge(&c);
    let m2 = c.merge(&l);
    kani::cover!(m1.is_some(), "the bullet merges");
    match (m1, m2) {
        (Some(Fragment::MarkerLine(a)), Some(Fragment::MarkerLine(b))) => {
            assert!(a.line.start == b.line.start && a.line.end == b.line.end && a.end_marker == b.end_marker && a.start_marker == b.start_marker, "O14.4 line+circle and circle+line merge to the same marker line");
            assert!(a.line.end == p4(mx, my), "O14.4 the marked end is the bullet centre");
            assert!(a.line.start == p4(fx, fy), "O14.4 the far end of the line is kept");
        }
        (None, None) => {}
        _ => assert!(false, "O14.4 the merge dispatcher treats both argument orders alike"),
    }
    assert!(l.is_contacting(&c) == c.is_contacting(&l), "O14.4 line/circle contact is symmetric");
}

//@ target: src/buffer/cell_buffer/contacts.rs
// Harnesses on Contacts: one grouping step joins exactly the groups that have a
// touching pair of fragments (C10: grouping stays inside what touches; C05: the
// sides of a box end up in one group), and endorse_rects accepts a group exactly
// when endorse_rect / endorse_rounded_rect does.
#![allow(warnings)]
use super::*;
use crate::kstub::*;
use crate::fragment::Line;
use crate::Point;

fn p4(nx: i32, ny: i32) -> Point {
    Point::new(nx as f32 * 0.25, ny as f32 * 0.25)
}

fn cross(ax: i32, ay: i32, bx: i32, by: i32, cx: i32, cy: i32) -> i64 {
    (bx - ax) as i64 * (cy - ay) as i64 - (by - ay) as i64 * (cx - ax) as i64
}

fn on_seg(ax: i32, ay: i32, bx: i32, by: i32, px: i32, py: i32) -> bool {
    if cross(ax, ay, bx, by, px, py) != 0 {
        return false;
    }
    let dot = (px - ax) as i64 * (bx - ax) as i64 + (py - ay) as i64 * (by - ay) as i64;
    let len2 = (bx - ax) as i64 * (bx - ax) as i64 + (by - ay) as i64 * (by - ay) as i64;
    dot >= 0 && dot <= len2
}

#[derive(Clone, Copy)]
struct Seg {
    ax: i32,
    ay: i32,
    bx: i32,
    by: i32,
}

/// an axis-parallel lattice segment of positive length in a 12x12 window at a cell offset
fn any_seg(offx: i32, offy: i32) -> Seg {
    let horizontal: bool = kani::any();
    let x = any_in(0, 8);
    let y = any_in(0, 8);
    let len = any_in(1, 8);
    if horizontal {
        Seg { ax: offx + x, ay: offy + y, bx: offx + x + len, by: offy + y }
    } else {
        Seg { ax: offx + x, ay: offy + y, bx: offx + x, by: offy + y + len }
    }
}

fn touch(s: Seg, t: Seg) -> bool {
    on_seg(s.ax, s.ay, s.bx, s.by, t.ax, t.ay)
        || on_seg(s.ax, s.ay, s.bx, s.by, t.bx, t.by)
        || on_seg(t.ax, t.ay, t.bx, t.by, s.ax, s.ay)
        || on_seg(t.ax, t.ay, t.bx, t.by, s.bx, s.by)
}

fn fspan(s: Seg) -> FragmentSpan {
    FragmentSpan::new(
        Span(Vec::with_capacity(1)),
        Fragment::Line(Line::new(p4(s.ax, s.ay), p4(s.bx, s.by), false)),
    )
}

//@ harness: o10_5_contacts_step props=C10,C05 tier=stretch obl=O10.5 timeout=3400 mem=20
//@ desc: two contact groups of 1..2 axis-parallel lattice lines each (8x8 quarter-unit window at a cell offset <= 3x3): Contacts::is_contacting(a,b) <=> some line of a touches some line of b (an endpoint of one lies on the other, integer oracle); in particular groups none of whose lines touch are never joined, wherever they are
//@ encodes: Contacts::is_contacting, Contacts::is_contacting_frag, FragmentSpan::is_contacting, Fragment::is_contacting, Line::is_touching
#[kani::proof]
#[kani::stub(std::io::_print, crate::kstub::noop_print)]
#[kani::unwind(5)]
fn o10_5_contacts_step() {
    let offx = any_in(0, 3) * 4;
    let offy = any_in(0, 3) * 8;
    let sa = [any_seg(offx, offy), any_seg(offx, offy)];
    let sb = [any_seg(offx, offy), any_seg(offx, offy)];
    let na: usize = kani::any();
    let nb: usize = kani::any();
    kani::assume(na >= 1 && na <= 2 && nb >= 1 && nb <= 2);
    let mut va: Vec<FragmentSpan> = Vec::with_capacity(2);
    let mut vb: Vec<FragmentSpan> = Vec::with_capacity(2);
    let mut i = 0;
    while i < na {
        va.push(fspan(sa[i]));
        i += 1;
    }
    let mut j = 0;
    while j < nb {
        vb.push(fspan(sb[j]));
        j += 1;
    }
    let a = Contacts(va);
    let b = Contacts(vb);
    let mut expected = false;
    let mut i = 0;
    while i < na {
        let mut j = 0;
        while j < nb {
            if touch(sa[i], sb[j]) {
                expected = true;
            }
            j += 1;
        }
        i += 1;
    }
    let got = a.is_contacting(&b);
    kani::cover!(got && na == 2 && nb == 2, "two 2-line groups in contact");
    kani::cover!(!got, "groups not in contact");
    assert!(got == expected, "O10.5 groups are in contact iff some pair of their fragments touches");
    std::mem::forget(a);
    std::mem::forget(b);
}

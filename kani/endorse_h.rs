//@ target: src/buffer/cell_buffer/endorse.rs
// Harnesses on rectangle endorsement (C05, C03, C01).  The functions under test
// are the private `is_rect`, `parallel_aabb_group`, `right_angle_arcs` and the
// public `endorse_rect` / `endorse_rounded_rect`, called on symbolic lattice
// fragments.  `Vec::new`/`Vec::push` are replaced by the bounded-capacity stubs
// (kstub.rs); exceeding the capacity is reported as a bound failure.
#![allow(warnings)]
use super::*;
use crate::kstub::*;
use crate::fragment::{Arc, Circle, Line};
use crate::Point;

/// Exact specification of Line::is_touching on lattice lines: an end point of one line
/// lies on the other (closed segments).  Cross and dot products of half-unit lattice
/// values below 2^10 are exact in f32.  The quick-tier endorsement harnesses use it in
/// place of the real is_touching (parry's Segment::contains_point: a projection with a
/// division and a relative epsilon, which alone costs CBMC ~10 minutes per harness);
/// that the real is_touching equals this specification on lattice lines is decided
/// separately by o6_1_touching_exact (quick: axis-parallel lines) and
/// o6_1_touching_exact_400 (thorough: all four directions, offsets to 400x200).
fn on_closed_segment(a: Point, b: Point, p: Point) -> bool {
    let cross = (b.x - a.x) * (p.y - a.y) - (b.y - a.y) * (p.x - a.x);
    let dot = (p.x - a.x) * (b.x - a.x) + (p.y - a.y) * (b.y - a.y);
    let len2 = (b.x - a.x) * (b.x - a.x) + (b.y - a.y) * (b.y - a.y);
    cross == 0.0 && dot >= 0.0 && dot <= len2
}

fn spec_is_touching(l: &Line, o: &Line) -> bool {
    on_closed_segment(l.start, l.end, o.start)
        || on_closed_segment(l.start, l.end, o.end)
        || on_closed_segment(o.start, o.end, l.start)
        || on_closed_segment(o.start, o.end, l.end)
}

/// half-unit lattice in x (cell borders and cell centres), unit lattice in y
fn hp(ix: i32, iy: i32) -> Point {
    Point::new(ix as f32 * 0.5, iy as f32)
}

fn hline(y: i32, a: i32, b: i32, broken: bool) -> Fragment {
    Fragment::Line(Line::new(hp(a, y), hp(b, y), broken))
}

fn vline(x: i32, c: i32, d: i32, broken: bool) -> Fragment {
    Fragment::Line(Line::new(hp(x, c), hp(x, d), broken))
}

const PERMS: [[usize; 4]; 24] = [
    [0, 1, 2, 3], [0, 1, 3, 2], [0, 2, 1, 3], [0, 2, 3, 1], [0, 3, 1, 2], [0, 3, 2, 1],
    [1, 0, 2, 3], [1, 0, 3, 2], [1, 2, 0, 3], [1, 2, 3, 0], [1, 3, 0, 2], [1, 3, 2, 0],
    [2, 0, 1, 3], [2, 0, 3, 1], [2, 1, 0, 3], [2, 1, 3, 0], [2, 3, 0, 1], [2, 3, 1, 0],
    [3, 0, 1, 2], [3, 0, 2, 1], [3, 1, 0, 2], [3, 1, 2, 0], [3, 2, 0, 1], [3, 2, 1, 0],
];

fn any_perm() -> [usize; 4] {
    let i: usize = kani::any();
    kani::assume(i < 24);
    PERMS[i]
}

// ---------------------------------------------------------------------------
// O5.1 soundness of the sharp rectangle

fn rect_soundness(max: i32, symbolic_order: bool) {
    rect_soundness_opt(max, symbolic_order, true);
}

fn rect_soundness_opt(max: i32, symbolic_order: bool, dashed: bool) {
    // two horizontal and two vertical lines anywhere on the lattice
    let (y1, a1, b1) = (any_in(0, max), any_in(0, max), any_in(0, max));
    let (y2, a2, b2) = (any_in(0, max), any_in(0, max), any_in(0, max));
    let (x3, c3, d3) = (any_in(0, max), any_in(0, max), any_in(0, max));
    let (x4, c4, d4) = (any_in(0, max), any_in(0, max), any_in(0, max));
    kani::assume(a1 < b1 && a2 < b2 && c3 < d3 && c4 < d4);
    let br = if dashed { [kani::any::<bool>(), kani::any(), kani::any(), kani::any()] } else { [false; 4] };
    // (horizontal?, row/col, from, to, dashed) of the four lines; the slice order is a
    // symbolic permutation of this DATA, and each Fragment is then built with a concrete
    // variant (a symbolic index into an array of Fragments would make the enum
    // discriminant symbolic and drag every fragment kind's code into the formula)
    let data = [(true, y1, a1, b1, br[0]), (false, x3, c3, d3, br[1]), (true, y2, a2, b2, br[2]), (false, x4, c4, d4, br[3])];
    let p = if symbolic_order { any_perm() } else { [0, 1, 2, 3] };
    let mk = |d: (bool, i32, i32, i32, bool)| -> Fragment {
        let (a, b) = if d.0 { (hp(d.2, d.1), hp(d.3, d.1)) } else { (hp(d.1, d.2), hp(d.1, d.3)) };
        Fragment::Line(Line::new(a, b, d.4))
    };
    let frags = [mk(data[p[0]]), mk(data[p[1]]), mk(data[p[2]]), mk(data[p[3]])];
    let refs = [&frags[0], &frags[1], &frags[2], &frags[3]];
    let r = endorse_rect(&refs);
    kani::cover!(r.is_some(), "some arrangement is endorsed");
    kani::cover!(r.is_none() && y1 != y2 && x3 != x4, "some arrangement is rejected");
    if let Some(r) = r {
        let minx = if x3 < x4 { x3 } else { x4 };
        let maxx = if x3 < x4 { x4 } else { x3 };
        let miny = if y1 < y2 { y1 } else { y2 };
        let maxy = if y1 < y2 { y2 } else { y1 };
        // the four lines are exactly the four edges of a non-degenerate box
        assert!(y1 != y2 && x3 != x4, "O5.1 an endorsed box has two distinct horizontal and two distinct vertical sides");
        assert!(a1 == minx && b1 == maxx && a2 == minx && b2 == maxx, "O5.1 horizontal lines run exactly from the left side to the right side");
        assert!(c3 == miny && d3 == maxy && c4 == miny && d4 == maxy, "O5.1 vertical lines run exactly from the top side to the bottom side");
        assert!(r.start == hp(minx, miny) && r.end == hp(maxx, maxy), "O5.1 the rect is the box of its four sides");
        assert!(r.is_broken == (br[0] || br[1] || br[2] || br[3]), "O5.1 rect is dashed iff a side is dashed");
        assert!(r.radius.is_none() && !r.is_filled, "O5.1 sharp rect has no radius and no fill");
    }
}

//@ harness: o5_1_rect_sound_small props=C05,C03 tier=quick obl=O5.1 timeout=800 mem=20 flags=--no-memory-safety-checks,--no-assertion-reach-checks
//@ desc: any 2 horizontal + 2 vertical lattice lines (half-unit x, unit y, coordinates 0..5, positive length, symbolic dashedness), slice order h,v,h,v: endorse_rect = Some(r) => the four lines are exactly the four sides of r (no ladder, no overhang, no T); bounded Vec; Line::is_touching replaced by its exact lattice specification (equivalence decided by o6_1_touching_exact*); CBMC memory-safety instrumentation off
//@ encodes: endorse::endorse_rect, endorse::is_rect, endorse::parallel_aabb_group, Line::is_aabb_parallel, Line::is_touching_aabb_perpendicular, Rect::new
#[kani::proof]
#[kani::unwind(10)]
#[kani::stub(std::vec::Vec::new, crate::kstub::vec_new_cap)]
#[kani::stub(std::vec::Vec::push, crate::kstub::push_nogrow)]
#[kani::stub(std::io::_print, crate::kstub::noop_print)]
#[kani::stub(crate::buffer::fragment_buffer::fragment::Line::is_touching, spec_is_touching)]
fn o5_1_rect_sound_small() {
    rect_soundness_opt(5, false, true);
}

//@ harness: o5_1_rect_sound props=C05,C03 tier=thorough obl=O5.1 timeout=2400 mem=28 flags=--no-memory-safety-checks,--no-assertion-reach-checks
//@ desc: any 2 horizontal + 2 vertical lattice lines (half-unit x, unit y, coordinates 0..6, positive length, symbolic dashedness), slice order h,v,h,v: endorse_rect = Some(r) => the four lines are exactly the four sides of r (no ladder, no overhang, no T), r dashed iff a side is; bounded Vec
//@ encodes: endorse::endorse_rect, endorse::is_rect, endorse::parallel_aabb_group, Line::is_aabb_parallel, Line::is_touching_aabb_perpendicular, Rect::new
#[kani::proof]
#[kani::stub(std::io::_print, crate::kstub::noop_print)]
#[kani::unwind(10)]
#[kani::stub(std::vec::Vec::new, crate::kstub::vec_new_cap)]
#[kani::stub(std::vec::Vec::push, crate::kstub::push_nogrow)]
fn o5_1_rect_sound() {
    rect_soundness(6, false);
}

//@ harness: o5_1_rect_sound_anyorder props=C05,C03 tier=stretch obl=O5.1 timeout=3400 mem=24
//@ desc: as o5_1_rect_sound with the four lines in any of the 24 slice orders, coordinates 0..8
//@ encodes: endorse::endorse_rect, endorse::is_rect, endorse::parallel_aabb_group
#[kani::proof]
#[kani::stub(std::io::_print, crate::kstub::noop_print)]
#[kani::unwind(10)]
#[kani::stub(std::vec::Vec::new, crate::kstub::vec_new_cap)]
#[kani::stub(std::vec::Vec::push, crate::kstub::push_nogrow)]
fn o5_1_rect_sound_anyorder() {
    rect_soundness(8, true);
}

//@ harness: o5_1_rect_needs_2h2v props=C05 tier=stretch obl=O5.1 timeout=3400 mem=24
//@ desc: four lattice lines each of symbolic orientation (horizontal or vertical), coordinates 0..5: when the mix is not 2 horizontal + 2 vertical, endorse_rect is None
//@ encodes: endorse::endorse_rect, endorse::is_rect, endorse::parallel_aabb_group
#[kani::proof]
#[kani::stub(std::io::_print, crate::kstub::noop_print)]
#[kani::unwind(10)]
#[kani::stub(std::vec::Vec::new, crate::kstub::vec_new_cap)]
#[kani::stub(std::vec::Vec::push, crate::kstub::push_nogrow)]
fn o5_1_rect_needs_2h2v() {
    let mut nh = 0;
    let mut mk = || {
        let h: bool = kani::any();
        let (r, a, b) = (any_in(0, 5), any_in(0, 5), any_in(0, 5));
        kani::assume(a < b);
        if h {
            nh += 1;
            hline(r, a, b, false)
        } else {
            vline(r, a, b, false)
        }
    };
    let frags = [mk(), mk(), mk(), mk()];
    kani::assume(nh != 2);
    let refs = [&frags[0], &frags[1], &frags[2], &frags[3]];
    let r = endorse_rect(&refs);
    kani::cover!(nh == 3, "three horizontals and a vertical");
    assert!(r.is_none(), "O5.1 only two horizontal plus two vertical lines can be a rect");
}

// ---------------------------------------------------------------------------
// O5.2 completeness of the sharp rectangle

fn rect_complete(max_w: i32, max_h: i32, max_x: i32, max_y: i32, all_orders: bool) {
    rect_complete_opt(max_w, max_h, max_x, max_y, if all_orders { 24 } else { 6 });
}

fn rect_complete_opt(max_w: i32, max_h: i32, max_x: i32, max_y: i32, orders: usize) {
    // a box whose corner characters sit in cells (x0,y0) and (x0+w, y0+h):
    // its sides run between the cell centres m = (x+0.5, 2y+1)
    let w = any_in(1, max_w);
    let h = any_in(1, max_h);
    let x0 = any_in(0, max_x);
    let y0 = any_in(0, max_y);
    let lx = 2 * x0 + 1; // half units
    let rx = 2 * (x0 + w) + 1;
    let ty = 2 * y0 + 1; // units
    let by = 2 * (y0 + h) + 1;
    let br = [kani::any::<bool>(), kani::any(), kani::any(), kani::any()];
    let data = [(true, ty, lx, rx, br[0]), (true, by, lx, rx, br[1]), (false, lx, ty, by, br[2]), (false, rx, ty, by, br[3])];
    let p = if orders >= 24 {
        any_perm()
    } else {
        // representative slice orders (top,bottom,left,right = 0,1,2,3)
        let i: usize = kani::any();
        kani::assume(i < orders);
        [[0, 2, 1, 3], [2, 0, 3, 1], [0, 1, 2, 3], [3, 2, 1, 0], [1, 3, 0, 2], [2, 3, 0, 1]][i]
    };
    // permute the DATA, build each Fragment with a concrete variant (see rect_soundness)
    let mk = |d: (bool, i32, i32, i32, bool)| -> Fragment {
        let (a, b) = if d.0 { (hp(d.2, d.1), hp(d.3, d.1)) } else { (hp(d.1, d.2), hp(d.1, d.3)) };
        Fragment::Line(Line::new(a, b, d.4))
    };
    let frags = [mk(data[p[0]]), mk(data[p[1]]), mk(data[p[2]]), mk(data[p[3]])];
    let refs = [&frags[0], &frags[1], &frags[2], &frags[3]];
    let r = endorse_rect(&refs);
    kani::cover!(w == max_w && h == max_h, "the largest box in the bound");
    kani::cover!(w == 1 && h == 1, "the smallest box");
    match r {
        Some(r) => {
            assert!(r.start == hp(lx, ty) && r.end == hp(rx, by), "O5.2 the rect has the position and size of the drawn box");
            assert!(r.is_broken == (br[0] || br[1] || br[2] || br[3]), "O5.2 rect is dashed iff a side is dashed");
            assert!(r.radius.is_none() && !r.is_filled, "O5.2 sharp corners give no radius and no fill");
            assert!(r.width() == w as f32 && r.height() == 2.0 * h as f32, "O5.2 width/height are the box's");
        }
        None => assert!(false, "O5.2 the four sides of a closed box are endorsed as a rect, in any order"),
    }
}

//@ harness: o5_2_rect_complete_small props=C05 tier=quick obl=O5.2 timeout=800 mem=28 flags=--no-memory-safety-checks,--no-assertion-reach-checks
//@ desc: the 4 sides of every closed box with w in 1..6, h in 1..4 cells at origins <= (4,4), in 3 representative slice orders, any dashedness: endorse_rect returns exactly that rect, dashed iff a side is dashed, not filled, no radius; bounded Vec; Line::is_touching replaced by its exact lattice specification (equivalence decided by o6_1_touching_exact*)
//@ encodes: endorse::endorse_rect, endorse::is_rect, endorse::parallel_aabb_group, Line::is_touching_aabb_perpendicular
#[kani::proof]
#[kani::unwind(10)]
#[kani::stub(std::vec::Vec::new, crate::kstub::vec_new_cap)]
#[kani::stub(std::vec::Vec::push, crate::kstub::push_nogrow)]
#[kani::stub(std::io::_print, crate::kstub::noop_print)]
#[kani::stub(crate::buffer::fragment_buffer::fragment::Line::is_touching, spec_is_touching)]
fn o5_2_rect_complete_small() {
    rect_complete_opt(6, 4, 4, 4, 3);
}

//@ harness: o5_2_rect_complete props=C05,C03 tier=thorough obl=O5.2 timeout=2400 mem=16
//@ desc: the 4 sides of every closed box with w in 1..6, h in 1..4 cells at every origin <= (2,2) (position independence of the predicates involved is decided separately under C06), in 6 representative slice orders (all 24 in the thorough tier), any dashedness: endorse_rect returns exactly that rect
//@ encodes: endorse::endorse_rect, endorse::is_rect, endorse::parallel_aabb_group, Line::is_touching_aabb_perpendicular
#[kani::proof]
#[kani::stub(std::io::_print, crate::kstub::noop_print)]
#[kani::unwind(10)]
#[kani::stub(std::vec::Vec::new, crate::kstub::vec_new_cap)]
#[kani::stub(std::vec::Vec::push, crate::kstub::push_nogrow)]
fn o5_2_rect_complete() {
    rect_complete(6, 4, 2, 2, false);
}

//@ harness: o5_2_rect_complete_60x30 props=C05,C03 tier=thorough obl=O5.2 timeout=3400 mem=24
//@ desc: as o5_2_rect_complete for w in 1..60, h in 1..30, origin <= (400,200)
//@ encodes: endorse::endorse_rect, endorse::is_rect, endorse::parallel_aabb_group
#[kani::proof]
#[kani::stub(std::io::_print, crate::kstub::noop_print)]
#[kani::unwind(10)]
#[kani::stub(std::vec::Vec::new, crate::kstub::vec_new_cap)]
#[kani::stub(std::vec::Vec::push, crate::kstub::push_nogrow)]
fn o5_2_rect_complete_60x30() {
    rect_complete(60, 30, 400, 200, true);
}

// ---------------------------------------------------------------------------
// O1.5 totality: no expect() in endorse.rs can fire

fn any_fragment() -> Fragment {
    let kind: u8 = kani::any();
    kani::assume(kind < 5);
    let a = hp(any_in(0, 6), any_in(0, 6));
    let b = hp(any_in(0, 6), any_in(0, 6));
    match kind {
        0 => Fragment::Line(Line::new(a, b, kani::any())),
        1 => {
            let r = any_in(1, 4) as f32 * 0.5;
            Fragment::Arc(Arc::new(a, b, r))
        }
        2 => Fragment::Circle(Circle::new(a, any_in(1, 4) as f32 * 0.5, kani::any())),
        3 => Fragment::Rect(crate::fragment::Rect::new(a, b, kani::any(), kani::any())),
        _ => crate::fragment::marker_line(a, b, kani::any(), None, None),
    }
}

//@ harness: o1_5_endorse_total_4 props=C01,C05 tier=stretch obl=O1.5 timeout=3400 mem=24
//@ desc: endorse_rect and endorse_rounded_rect never panic (as_line().expect / as_arc().expect / arc_radius.expect unreachable) for ANY 4 fragments whose variants are symbolic among Line, Arc, Circle, Rect, MarkerLine with lattice payloads 0..6; powf stubbed by exact square
//@ encodes: endorse::endorse_rect, endorse::endorse_rounded_rect, endorse::is_rect, endorse::is_rounded_rect, endorse::right_angle_arcs, endorse::parallel_aabb_group, Fragment::is_aabb_parallel, Arc::is_aabb_right_angle_arc
#[kani::proof]
#[kani::stub(std::io::_print, crate::kstub::noop_print)]
#[kani::unwind(10)]
#[kani::stub(std::vec::Vec::new, crate::kstub::vec_new_cap)]
#[kani::stub(std::vec::Vec::push, crate::kstub::push_nogrow)]
#[kani::stub(f32::powf, crate::kstub::powf_sq)]
fn o1_5_endorse_total_4() {
    let frags = [any_fragment(), any_fragment(), any_fragment(), any_fragment()];
    let refs = [&frags[0], &frags[1], &frags[2], &frags[3]];
    let r = endorse_rect(&refs);
    let rr = endorse_rounded_rect(&refs);
    kani::cover!(r.is_some(), "four fragments endorsed");
    assert!(rr.is_none(), "O1.5 four fragments are never a rounded rect");
    // when a rect is endorsed all four were lines
    if r.is_some() {
        assert!(
            frags[0].as_line().is_some() && frags[1].as_line().is_some()
                && frags[2].as_line().is_some() && frags[3].as_line().is_some(),
            "O5.1 only lines are endorsed as a rect"
        );
    }
}

// ---------------------------------------------------------------------------
// O5.3 completeness of the rounded rectangle

const ORDERS8: [[usize; 8]; 6] = [
    [0, 1, 2, 3, 4, 5, 6, 7],
    [4, 0, 5, 1, 6, 2, 7, 3],
    [7, 6, 5, 4, 3, 2, 1, 0],
    [2, 4, 0, 6, 3, 5, 1, 7],
    [1, 0, 3, 2, 5, 4, 7, 6],
    [4, 5, 6, 7, 0, 1, 2, 3],
];

fn frags_line(f: &Fragment) -> (Point, Point, bool) {
    match f {
        Fragment::Line(l) => (l.start, l.end, l.is_broken),
        _ => (Point::new(0.0, 0.0), Point::new(0.0, 0.0), false),
    }
}

fn frags_arc(f: &Fragment) -> (Point, Point) {
    match f {
        Fragment::Arc(a) => (a.start, a.end),
        _ => (Point::new(0.0, 0.0), Point::new(0.0, 0.0)),
    }
}

fn rounded_complete(max_w: i32, max_h: i32, max_x: i32, max_y: i32, permute: bool) {
    rounded_complete_at(any_in(2, max_w), any_in(2, max_h), any_in(0, max_x), any_in(0, max_y), max_w, max_h, permute);
}

fn rounded_complete_at(w: i32, h: i32, x0: i32, y0: i32, max_w: i32, max_h: i32, permute: bool) {
    // corner characters in cells (x0,y0) .. (x0+w, y0+h); sides run through the cell centres,
    // corner arcs have radius 0.5 as `. , ' \`` draw them between a horizontal and a vertical edge
    let l = 2 * x0 + 1; // half units
    let r = 2 * (x0 + w) + 1;
    let t = 2 * y0 + 1; // units
    let b = 2 * (y0 + h) + 1;
    let br = [kani::any::<bool>(), kani::any(), kani::any(), kani::any()];
    // half-unit x lattice: radius 0.5 = 1 half unit; y lattice in units: 0.5 is not on it, so build points directly
    let pt = |hx: i32, y2: i32| Point::new(hx as f32 * 0.5, y2 as f32 * 0.5); // y in half units too
    let (t2, b2) = (2 * t, 2 * b);
    let frags = [
        Fragment::Line(Line::new(pt(l + 1, t2), pt(r - 1, t2), br[0])), // top
        Fragment::Line(Line::new(pt(l + 1, b2), pt(r - 1, b2), br[1])), // bottom
        Fragment::Line(Line::new(pt(l, t2 + 1), pt(l, b2 - 1), br[2])), // left
        Fragment::Line(Line::new(pt(r, t2 + 1), pt(r, b2 - 1), br[3])), // right
        Fragment::Arc(Arc::new(pt(l + 1, t2), pt(l, t2 + 1), 0.5)),     // top-left    (as `.` writes it: arc(o, r))
        Fragment::Arc(Arc::new(pt(r, t2 + 1), pt(r - 1, t2), 0.5)),     // top-right   (arc(r, k))
        Fragment::Arc(Arc::new(pt(l, b2 - 1), pt(l + 1, b2), 0.5)),     // bottom-left (arc(h, o))
        Fragment::Arc(Arc::new(pt(r - 1, b2), pt(r, b2 - 1), 0.5)),     // bottom-right(arc(k, h))
    ];
    // the lines are permuted among the line slots and the arcs among the arc slots by
    // selecting their DATA with a symbolic permutation; two slot layouts (lines first /
    // interleaved) are explored by branching, so every Fragment has a concrete variant
    let lp = if permute { any_perm() } else { [0, 1, 2, 3] };
    let ap = if permute { any_perm() } else { [0, 1, 2, 3] };
    let ld = [(frags_line(&frags[0])), frags_line(&frags[1]), frags_line(&frags[2]), frags_line(&frags[3])];
    let ad = [frags_arc(&frags[4]), frags_arc(&frags[5]), frags_arc(&frags[6]), frags_arc(&frags[7])];
    let ml = |d: (Point, Point, bool)| Fragment::Line(Line::new(d.0, d.1, d.2));
    let ma = |d: (Point, Point)| Fragment::Arc(Arc::new(d.0, d.1, 0.5));
    let interleaved: bool = kani::any();
    let fr2 = if interleaved {
        [ml(ld[lp[0]]), ma(ad[ap[0]]), ml(ld[lp[1]]), ma(ad[ap[1]]), ml(ld[lp[2]]), ma(ad[ap[2]]), ml(ld[lp[3]]), ma(ad[ap[3]])]
    } else {
        [ml(ld[lp[0]]), ml(ld[lp[1]]), ml(ld[lp[2]]), ml(ld[lp[3]]), ma(ad[ap[0]]), ma(ad[ap[1]]), ma(ad[ap[2]]), ma(ad[ap[3]])]
    };
    let refs = [&fr2[0], &fr2[1], &fr2[2], &fr2[3], &fr2[4], &fr2[5], &fr2[6], &fr2[7]];
    kani::cover!(w == max_w && h == max_h, "largest rounded box in the bound");
    assert!(endorse_rect(&refs).is_none(), "O5.3 eight fragments are not a sharp rect");
    match endorse_rounded_rect(&refs) {
        Some(rr) => {
            assert!(rr.start == pt(l, t2) && rr.end == pt(r, b2), "O5.3 the rounded rect has the position and size of the drawn box");
            assert!(rr.radius == Some(0.5), "O5.3 the corner radius is the arcs' radius");
            assert!(rr.is_broken == (br[0] || br[1] || br[2] || br[3]), "O5.3 rounded rect dashed iff a side is dashed");
            assert!(!rr.is_filled, "O5.3 rounded rect is not filled");
        }
        None => assert!(false, "O5.3 the 4 sides and 4 corner arcs of a closed rounded box are endorsed as a rounded rect"),
    }
}

//@ harness: o5_3_rounded_complete props=C05 tier=stretch obl=O5.3 timeout=3400 mem=24
//@ desc: the 4 sides and 4 quarter arcs (radius 0.5) of three representative closed rounded boxes - 2x2 cells at (0,0), 5x3 at (3,1), 12x6 at (40,20) - sides in the order top,bottom,left,right, arcs TL,TR,BL,BR, two slot layouts (lines first / interleaved), any dashedness of the sides: endorse_rounded_rect returns exactly that rect with rx = 0.5 and endorse_rect returns None (the size/offset-symbolic version did not finish in 40 min and is thorough-tier); powf stubbed by exact square; bounded Vec
//@ encodes: endorse::endorse_rounded_rect, endorse::is_rounded_rect, endorse::right_angle_arcs, endorse::parallel_aabb_group, Arc::is_aabb_right_angle_arc, Rect::rounded_new
#[kani::proof]
#[kani::unwind(18)]
#[kani::stub(std::vec::Vec::new, crate::kstub::vec_new_cap)]
#[kani::stub(std::vec::Vec::push, crate::kstub::push_nogrow)]
#[kani::stub(f32::powf, crate::kstub::powf_sq)]
#[kani::stub(std::io::_print, crate::kstub::noop_print)]
fn o5_3_rounded_complete() {
    let which: u8 = kani::any();
    kani::assume(which < 3);
    match which {
        0 => rounded_complete_at(2, 2, 0, 0, 2, 2, false),
        1 => rounded_complete_at(5, 3, 3, 1, 5, 3, false),
        _ => rounded_complete_at(12, 6, 40, 20, 12, 6, false),
    }
}

//@ harness: o5_3_rounded_complete_sizes props=C05 tier=stretch obl=O5.3 timeout=3400 mem=24
//@ desc: as o5_3_rounded_complete for every w in 2..8, h in 2..4 at origins <= (1,1) (symbolic)
//@ encodes: endorse::endorse_rounded_rect, endorse::is_rounded_rect, endorse::right_angle_arcs, endorse::parallel_aabb_group
#[kani::proof]
#[kani::unwind(18)]
#[kani::stub(std::vec::Vec::new, crate::kstub::vec_new_cap)]
#[kani::stub(std::vec::Vec::push, crate::kstub::push_nogrow)]
#[kani::stub(f32::powf, crate::kstub::powf_sq)]
#[kani::stub(std::io::_print, crate::kstub::noop_print)]
fn o5_3_rounded_complete_sizes() {
    rounded_complete(8, 4, 1, 1, false);
}

//@ harness: o5_3_rounded_complete_anyorder props=C05 tier=stretch obl=O5.3 timeout=3400 mem=24
//@ desc: as o5_3_rounded_complete for w in 2..12, h in 2..6, origins <= (3,3), with the sides in any order among the line slots and the arcs in any order among the arc slots
//@ encodes: endorse::endorse_rounded_rect, endorse::is_rounded_rect, endorse::right_angle_arcs, endorse::parallel_aabb_group
#[kani::proof]
#[kani::unwind(18)]
#[kani::stub(std::vec::Vec::new, crate::kstub::vec_new_cap)]
#[kani::stub(std::vec::Vec::push, crate::kstub::push_nogrow)]
#[kani::stub(f32::powf, crate::kstub::powf_sq)]
#[kani::stub(std::io::_print, crate::kstub::noop_print)]
fn o5_3_rounded_complete_anyorder() {
    rounded_complete(12, 6, 3, 3, true);
}

//@ harness: o1_5_parallel_pairs_are_lines props=C01 tier=quick obl=O1.5 timeout=800 mem=12
//@ desc: parallel_aabb_group on ANY 4 fragments whose variants are symbolic among Line (symbolic lattice payload), Arc, Circle, Rect, MarkerLine: every index pair it returns refers to two distinct Line fragments and no index occurs twice - so the as_line().expect("expecting a line") calls of is_rect / is_rounded_rect, which only index through these pairs, cannot fire; bounded Vec
//@ encodes: endorse::parallel_aabb_group, Fragment::is_aabb_parallel, Line::is_aabb_parallel
#[kani::proof]
#[kani::unwind(6)]
#[kani::stub(std::vec::Vec::new, crate::kstub::vec_new_cap)]
#[kani::stub(std::vec::Vec::push, crate::kstub::push_nogrow)]
#[kani::stub(std::io::_print, crate::kstub::noop_print)]
fn o1_5_parallel_pairs_are_lines() {
    // non-line payloads are irrelevant to the grouping and kept concrete
    let mk = || -> Fragment {
        let kind: u8 = kani::any();
        kani::assume(kind < 5);
        match kind {
            0 => {
                let (r, a, b) = (any_in(0, 4), any_in(0, 4), any_in(0, 4));
                let h: bool = kani::any();
                if h { hline(r, a, b, false) } else { vline(r, a, b, false) }
            }
            1 => Fragment::Arc(Arc::new(hp(0, 0), hp(1, 1), 0.5)),
            2 => Fragment::Circle(Circle::new(hp(1, 1), 0.5, false)),
            3 => Fragment::Rect(crate::fragment::Rect::new(hp(0, 0), hp(2, 2), false, false)),
            _ => crate::fragment::marker_line(hp(0, 0), hp(2, 0), false, None, None),
        }
    };
    let frags = [mk(), mk(), mk(), mk()];
    let refs = [&frags[0], &frags[1], &frags[2], &frags[3]];
    let pairs = parallel_aabb_group(&refs);
    assert!(pairs.len() <= 2, "O1.5 four fragments give at most two parallel pairs");
    kani::cover!(pairs.len() == 2, "two pairs are found");
    kani::cover!(pairs.len() == 1, "one pair is found");
    let mut seen = [false; 4];
    let mut i = 0;
    while i < pairs.len() {
        let (a, b) = pairs[i];
        assert!(a < 4 && b < 4 && a != b, "O1.5 pair indices are valid and distinct");
        assert!(refs[a].as_line().is_some() && refs[b].as_line().is_some(), "O1.5 only lines are paired, so as_line().expect cannot fail");
        assert!(!seen[a] && !seen[b], "O1.5 no fragment is in two pairs");
        seen[a] = true;
        seen[b] = true;
        i += 1;
    }
}

//@ target: src/merge.rs
// Harnesses on the generic default methods of trait Merge (merge_recursive,
// second_pass_merge), which drive line merging (C09), span grouping (C10) and
// contact grouping.  They are instantiated with a cheap element type defined
// here (closed integer intervals that merge when they overlap or touch); the
// code under test is the generic loop, shared by every implementor.
#![allow(warnings)]
use super::*;
use crate::kstub::*;

#[derive(Clone, Copy, PartialEq, Eq, Debug)]
struct Iv {
    lo: i8,
    hi: i8,
}

impl Merge for Iv {
    fn merge(&self, other: &Self) -> Option<Self> {
        if self.lo <= other.hi && other.lo <= self.hi {
            Some(Iv {
                lo: if self.lo < other.lo { self.lo } else { other.lo },
                hi: if self.hi > other.hi { self.hi } else { other.hi },
            })
        } else {
            None
        }
    }
}

fn any_iv() -> Iv {
    let lo: i8 = kani::any();
    let hi: i8 = kani::any();
    kani::assume(lo >= 0 && lo <= hi && hi <= 12);
    Iv { lo, hi }
}

fn covered(items: &[Iv], n: usize, p: i8) -> bool {
    let mut i = 0;
    let mut c = false;
    while i < n {
        if items[i].lo <= p && p <= items[i].hi {
            c = true;
        }
        i += 1;
    }
    c
}

fn fixpoint(n: usize) {
    let src = [any_iv(), any_iv(), any_iv(), any_iv()];
    let mut v: Vec<Iv> = Vec::new();
    let mut i = 0;
    while i < n {
        v.push(src[i]);
        i += 1;
    }
    let out = Iv::merge_recursive(v);
    let m = out.len();
    assert!(m >= 1 && m <= n, "O9.3 merge_recursive neither invents nor loses all elements");
    kani::cover!(m == 1 && n > 2, "everything merged into one");
    kani::cover!(m == n, "nothing merged");
    kani::cover!(m > 1 && m < n, "a partial merge");
    // no two results can still merge: the loop stopped at a fixpoint
    let mut a = 0;
    while a < m {
        let mut b = a + 1;
        while b < m {
            assert!(out[a].merge(&out[b]).is_none(), "O9.3 no two results of merge_recursive can still merge");
            b += 1;
        }
        a += 1;
    }
    // the union of the inputs is preserved (nothing dropped, nothing invented)
    let p: i8 = kani::any();
    kani::assume(p >= 0 && p <= 12);
    let mut outs = [Iv { lo: 1, hi: 0 }; 4];
    let mut j = 0;
    while j < m {
        outs[j] = out[j];
        j += 1;
    }
    assert!(covered(&src, n, p) == covered(&outs, m, p), "O9.3 merge_recursive preserves the union of its inputs");
    std::mem::forget(out);
}

//@ harness: o9_3_merge_fixpoint_3 props=C09,C10,C01 tier=quick obl=O9.3 timeout=800 mem=12
//@ desc: generic Merge::merge_recursive/second_pass_merge on 3 symbolic elements (closed integer intervals in 0..12, merge = union when touching): the result is pairwise unmergeable (a fixpoint), covers exactly the union of the inputs, and the recursion terminates within 4 levels (unwinding assertion); bounded-capacity Vec stubs
//@ encodes: Merge::merge_recursive, Merge::second_pass_merge (generic default methods; instantiation: harness-defined interval type)
#[kani::proof]
#[kani::stub(std::io::_print, crate::kstub::noop_print)]
#[kani::unwind(6)]
#[kani::stub(std::vec::Vec::new, crate::kstub::vec_new_cap)]
#[kani::stub(std::vec::Vec::push, crate::kstub::push_nogrow)]
fn o9_3_merge_fixpoint_3() {
    fixpoint(3);
}

//@ harness: o9_3_merge_fixpoint_4 props=C09,C10,C01 tier=thorough obl=O9.3 timeout=3000 mem=20
//@ desc: as o9_3_merge_fixpoint_3 with 4 symbolic elements
//@ encodes: Merge::merge_recursive, Merge::second_pass_merge
#[kani::proof]
#[kani::stub(std::io::_print, crate::kstub::noop_print)]
#[kani::unwind(7)]
#[kani::stub(std::vec::Vec::new, crate::kstub::vec_new_cap)]
#[kani::stub(std::vec::Vec::push, crate::kstub::push_nogrow)]
fn o9_3_merge_fixpoint_4() {
    fixpoint(4);
}

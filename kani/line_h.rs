//@ target: src/buffer/fragment_buffer/fragment/line.rs
// Harnesses on Line: totality of heading / merge_circle (C01), merging of
// straight runs and its exactness (C09, C03), translation invariance of the
// float predicates (C06), marker lines (C14).
//
// Lattice: every coordinate is an integer number of quarter units (0.25),
// which is where ascii_map / unicode_map put all their points; a cell is 4
// quarter units wide and 8 high.  Oracles are exact integer arithmetic on the
// lattice numerators and never call svgbob or parry.
#![allow(warnings)]
use super::*;
use crate::kstub::*;

fn p4(nx: i32, ny: i32) -> Point {
    Point::new(nx as f32 * 0.25, ny as f32 * 0.25)
}

fn cross(ax: i32, ay: i32, bx: i32, by: i32, cx: i32, cy: i32) -> i64 {
    (bx - ax) as i64 * (cy - ay) as i64 - (by - ay) as i64 * (cx - ax) as i64
}

/// p on closed segment [a,b], exact
fn on_seg(ax: i32, ay: i32, bx: i32, by: i32, px: i32, py: i32) -> bool {
    if cross(ax, ay, bx, by, px, py) != 0 {
        return false;
    }
    let dot = (px - ax) as i64 * (bx - ax) as i64 + (py - ay) as i64 * (by - ay) as i64;
    let len2 = (bx - ax) as i64 * (bx - ax) as i64 + (by - ay) as i64 * (by - ay) as i64;
    dot >= 0 && dot <= len2
}

/// direction classes of svgbob's line characters, as a step in quarter units
/// per quarter unit of "progress": 0 horizontal, 1 vertical, 2 slash `/`
/// (x+1, y-2), 3 backslash `\` (x+1, y+2)
fn step(dir: u8) -> (i32, i32) {
    match dir {
        0 => (1, 0),
        1 => (0, 1),
        2 => (1, -2),
        _ => (1, 2),
    }
}

// ---------------------------------------------------------------------------
// C01

//@ harness: o1_3_heading_total props=C01 tier=quick obl=O1.3 timeout=600 mem=8
//@ desc: Line::heading never reaches unreachable!() for ANY four f32 endpoints (NaN and infinities included) and ANY value returned by atan (stub any_atan over-approximates libm)
//@ encodes: Line::heading, Line::line_angle, Line::full_angle, Line::octant, Line::slope, Line::angle_deg
#[kani::proof]
#[kani::stub(std::io::_print, crate::kstub::noop_print)]
#[kani::stub(f32::atan, crate::kstub::any_atan)]
fn o1_3_heading_total() {
    let l = Line::new_noswap(
        Point::new(kani::any(), kani::any()),
        Point::new(kani::any(), kani::any()),
        kani::any(),
    );
    let d = l.heading();
    kani::cover!(d == Direction::TopLeft, "a heading other than Right is produced");
}

//@ harness: o1_4_merge_circle_total props=C01,C14 tier=quick obl=O1.4 timeout=800 mem=10
//@ desc: Line::merge_circle and Line::is_touching_circle never panic (panic!("There is no endpoint ...") unreachable) for any lattice line (|coords| <= 4096 quarter units), any lattice circle centre, any f32 radius, any atan result
//@ encodes: Line::merge_circle, Line::is_touching_circle, Line::heading, Direction::threshold_length
#[kani::proof]
#[kani::stub(std::io::_print, crate::kstub::noop_print)]
#[kani::stub(f32::atan, crate::kstub::any_atan)]
fn o1_4_merge_circle_total() {
    let l = Line::new_noswap(
        p4(any_in(-4096, 4096), any_in(-4096, 4096)),
        p4(any_in(-4096, 4096), any_in(-4096, 4096)),
        kani::any(),
    );
    let c = Circle::new(p4(any_in(-4096, 4096), any_in(-4096, 4096)), kani::any(), kani::any());
    let t = l.is_touching_circle(&c);
    let m = l.merge_circle(&c);
    kani::cover!(m.is_some(), "some line merges with some circle");
    kani::cover!(t, "some line touches some circle");
    std::mem::forget(m);
}

//@ harness: o1_1_line_new_total props=C01 tier=quick obl=O1.1 timeout=600 mem=8
//@ desc: Line::new, Line::cmp, Line::eq never reach util::ord's unreachable!() for any finite f32 coordinates (all finite values, no lattice)
//@ encodes: Line::new, Line::sort_reorder_end_points, Line::cmp, Point::cmp, util::ord
#[kani::proof]
#[kani::stub(std::io::_print, crate::kstub::noop_print)]
fn o1_1_line_new_total() {
    let a: f32 = kani::any();
    let b: f32 = kani::any();
    let c: f32 = kani::any();
    let d: f32 = kani::any();
    kani::assume(a.is_finite() && b.is_finite() && c.is_finite() && d.is_finite());
    let l = Line::new(Point::new(a, b), Point::new(c, d), kani::any());
    assert!(l.start <= l.end, "O1.1 Line::new orders its endpoints");
    let e: f32 = kani::any();
    kani::assume(e.is_finite());
    let l2 = Line::new(Point::new(e, b), Point::new(c, d), kani::any());
    let o = l.cmp(&l2);
    kani::cover!(o == Ordering::Less, "lines compare less");
    let _ = l == l2;
}

// ---------------------------------------------------------------------------
// C09 / C03 — merging

fn lattice_line(ax: i32, ay: i32, bx: i32, by: i32, broken: bool) -> Line {
    Line::new(p4(ax, ay), p4(bx, by), broken)
}

/// O9.1: a run of k cell segments already merged into one line, plus the
/// segment of the next cell, merge into the exact hull.
/// `dir`: 0 horizontal, 1 vertical, 2 slash, 3 backslash.
/// A cell segment spans one cell: 4 quarter units horizontally, 8 vertically,
/// (4,-8) for slash and (4,8) for backslash.
fn long_run(dir: u8, max_k: i32, max_off_x: i32, max_off_y: i32) {
    let k = any_in(1, max_k);
    // origin of the run: any lattice point of any cell at offset <= max_off
    let ox = any_in(0, max_off_x * 4 + 4);
    let oy = any_in(0, max_off_y * 8 + 8);
    let (sx, sy) = step(dir);
    let (cx, cy) = match dir {
        0 => (4, 0),
        1 => (0, 8),
        2 => (4, -8),
        _ => (4, 8),
    };
    // keep y non-negative for the slash family
    let base_y = if dir == 2 { oy + (max_k + 1) * 8 } else { oy };
    let ax = ox;
    let ay = base_y;
    let bx = ox + k * cx;
    let by = base_y + k * cy;
    let nx = bx + cx;
    let ny = by + cy;
    let b1: bool = kani::any();
    let b2: bool = kani::any();
    let run = lattice_line(ax, ay, bx, by, b1);
    let next = lattice_line(bx, by, nx, ny, b2);
    let front: bool = kani::any(); // merge(run,next) or merge(next,run)
    let m = if front { run.merge(&next) } else { next.merge(&run) };
    kani::cover!(k == max_k, "the longest run in the bound is explored");
    match m {
        Some(m) => {
            let hull = lattice_line(ax, ay, nx, ny, false);
            assert!(
                m.start == hull.start && m.end == hull.end,
                "O9.1 merged run spans exactly from the first to the last cell"
            );
            assert!(m.is_broken == (b1 || b2), "O9.4 merged run is dashed iff a part is dashed");
        }
        None => {
            assert!(false, "O9.1 a straight run merges with the next cell's segment");
        }
    }
}

//@ harness: o9_1_run_horizontal props=C09,C03 tier=quick obl=O9.1 timeout=800 mem=8
//@ desc: horizontal family (- ~ _ = rails): run of k cells (k symbolic 1..60) at any lattice origin within 64x64 cells merges with the next cell's segment into the exact hull, either call order; dashed iff a part is dashed
//@ encodes: Line::merge, Line::can_merge, Line::is_touching, util::is_collinear, parry Segment::contains_point
#[kani::proof]
#[kani::stub(std::io::_print, crate::kstub::noop_print)]
fn o9_1_run_horizontal() {
    long_run(0, 60, 64, 64);
}

//@ harness: o9_1_run_vertical props=C09,C03 tier=quick obl=O9.1 timeout=800 mem=8
//@ desc: vertical family (| : !): run of k cells (1..60) at any lattice origin within 64x64 cells merges with the next cell's segment into the exact hull
//@ encodes: Line::merge, Line::can_merge, Line::is_touching, util::is_collinear, parry Segment::contains_point
#[kani::proof]
#[kani::stub(std::io::_print, crate::kstub::noop_print)]
fn o9_1_run_vertical() {
    long_run(1, 60, 64, 64);
}

//@ harness: o9_1_run_slash props=C09 tier=quick obl=O9.1 timeout=800 mem=8
//@ desc: slash family (/): run of k cells (1..30) at any lattice origin within 16x16 cells (k <= 400, 400x200 cells in the thorough tier) merges with the next cell's segment into the exact hull
//@ encodes: Line::merge, Line::can_merge, Line::is_touching, util::is_collinear, parry Segment::contains_point
#[kani::proof]
#[kani::stub(std::io::_print, crate::kstub::noop_print)]
fn o9_1_run_slash() {
    long_run(2, 30, 16, 16);
}

//@ harness: o9_1_run_backslash props=C09 tier=quick obl=O9.1 timeout=800 mem=8
//@ desc: backslash family (\): run of k cells (1..30) at any lattice origin within 16x16 cells (k <= 400, 400x200 cells in the thorough tier) merges with the next cell's segment into the exact hull
//@ encodes: Line::merge, Line::can_merge, Line::is_touching, util::is_collinear, parry Segment::contains_point
#[kani::proof]
#[kani::stub(std::io::_print, crate::kstub::noop_print)]
fn o9_1_run_backslash() {
    long_run(3, 30, 16, 16);
}

//@ harness: o6_5_run_backslash_far props=C06,C09 tier=thorough obl=O6.5 timeout=2400 mem=14
//@ desc: backslash family far down the page: run of k cells (1..12) at any lattice origin within 4000x2600 cells (the offsets at which seeded change C06-2A - shoelace determinant on absolute coordinates in is_collinear - loses f32 precision) merges with the next cell's segment into the exact hull: line merging does not depend on where on the page the drawing sits
//@ encodes: Line::merge, Line::can_merge, Line::is_touching, util::is_collinear, parry Segment::contains_point
#[kani::proof]
#[kani::stub(std::io::_print, crate::kstub::noop_print)]
fn o6_5_run_backslash_far() {
    long_run(3, 12, 4000, 2600);
}
//@ harness: o9_1_run_horizontal_400 props=C09,C03 tier=thorough obl=O9.1 timeout=3000 mem=14
//@ desc: horizontal family, k symbolic 1..400, origin within 400x200 cells
//@ encodes: Line::merge, Line::can_merge, util::is_collinear
#[kani::proof]
#[kani::stub(std::io::_print, crate::kstub::noop_print)]
fn o9_1_run_horizontal_400() {
    long_run(0, 400, 400, 200);
}

//@ harness: o9_1_run_vertical_400 props=C09,C03 tier=thorough obl=O9.1 timeout=3000 mem=14
//@ desc: vertical family, k symbolic 1..400, origin within 400x200 cells
//@ encodes: Line::merge, Line::can_merge, util::is_collinear
#[kani::proof]
#[kani::stub(std::io::_print, crate::kstub::noop_print)]
fn o9_1_run_vertical_400() {
    long_run(1, 400, 400, 200);
}

//@ harness: o9_1_run_slash_400 props=C09 tier=thorough obl=O9.1 timeout=3000 mem=14
//@ desc: slash family, k symbolic 1..400, origin within 400x200 cells
//@ encodes: Line::merge, Line::can_merge, util::is_collinear
#[kani::proof]
#[kani::stub(std::io::_print, crate::kstub::noop_print)]
fn o9_1_run_slash_400() {
    long_run(2, 400, 400, 200);
}

//@ harness: o9_1_run_backslash_400 props=C09 tier=thorough obl=O9.1 timeout=3000 mem=14
//@ desc: backslash family, k symbolic 1..400, origin within 400x200 cells
//@ encodes: Line::merge, Line::can_merge, util::is_collinear
#[kani::proof]
#[kani::stub(std::io::_print, crate::kstub::noop_print)]
fn o9_1_run_backslash_400() {
    long_run(3, 400, 400, 200);
}

/// O9.2: can_merge is exactly "collinear and sharing a point" on lattice
/// segments of the four direction classes.
fn exactness(max_len: i32, max_pos: i32, max_off_x: i32, max_off_y: i32) {
    let d1: u8 = kani::any();
    let d2: u8 = kani::any();
    kani::assume(d1 < 4 && d2 < 4);
    let (s1x, s1y) = step(d1);
    let (s2x, s2y) = step(d2);
    let offx = any_in(0, max_off_x) * 4;
    let offy = any_in(0, max_off_y) * 8 + 2 * max_len + 2 * max_pos;
    let a1x = any_in(0, max_pos);
    let a1y = any_in(0, max_pos);
    let t1 = any_in(1, max_len);
    let a2x = any_in(0, max_pos);
    let a2y = any_in(0, max_pos);
    let t2 = any_in(1, max_len);
    let (ax, ay) = (offx + a1x, offy + a1y);
    let (bx, by) = (ax + t1 * s1x, ay + t1 * s1y);
    let (cx, cy) = (offx + a2x, offy + a2y);
    let (dx, dy) = (cx + t2 * s2x, cy + t2 * s2y);
    let l1 = lattice_line(ax, ay, bx, by, false);
    let l2 = lattice_line(cx, cy, dx, dy, false);
    let collinear = cross(ax, ay, bx, by, cx, cy) == 0 && cross(ax, ay, bx, by, dx, dy) == 0;
    let share = on_seg(ax, ay, bx, by, cx, cy)
        || on_seg(ax, ay, bx, by, dx, dy)
        || on_seg(cx, cy, dx, dy, ax, ay)
        || on_seg(cx, cy, dx, dy, bx, by);
    let expected = collinear && share;
    let got = l1.can_merge(&l2);
    kani::cover!(got && d1 == 2, "two slash segments merge");
    kani::cover!(!got && share, "touching but not collinear (T or corner)");
    kani::cover!(!got && collinear && d1 == d2, "collinear with a gap");
    if expected {
        assert!(got, "O9.2 collinear touching segments can merge");
    } else {
        assert!(!got, "O9.2 segments that are not collinear-and-touching never merge");
    }
}

//@ harness: o9_2_can_merge_exact_small props=C09,C03,C06 tier=quick obl=O9.2 timeout=800 mem=10
//@ desc: two lattice segments, each of any of the 4 direction classes, start anywhere in a 4x4 quarter-unit window, length 1..4 quarter-unit steps, window at any cell offset <= 4x4: can_merge <=> (exact cross products zero) and (segments share a point)
//@ encodes: Line::can_merge, Line::is_touching, Line::touching_line, util::is_collinear, parry Segment::contains_point
#[kani::proof]
#[kani::stub(std::io::_print, crate::kstub::noop_print)]
fn o9_2_can_merge_exact_small() {
    exactness(4, 4, 4, 4);
}

//@ harness: o9_2_can_merge_exact props=C09,C03,C06 tier=thorough obl=O9.2 timeout=2400 mem=14
//@ desc: two lattice segments, each of any of the 4 direction classes, start anywhere in an 8x8 quarter-unit window, length 1..8 quarter-unit steps, window at any cell offset <= 16x16: can_merge <=> (exact cross products zero) and (segments share a point)
//@ encodes: Line::can_merge, Line::is_touching, Line::touching_line, util::is_collinear, parry Segment::contains_point, parry Triangle::area
#[kani::proof]
#[kani::stub(std::io::_print, crate::kstub::noop_print)]
fn o9_2_can_merge_exact() {
    exactness(8, 8, 16, 16);
}

//@ harness: o9_2_can_merge_exact_48 props=C09,C03,C06 tier=stretch obl=O9.2 timeout=3400 mem=16
//@ desc: as o9_2_can_merge_exact with window 48x48 quarter units, lengths 1..48, offsets <= 400x200 cells
//@ encodes: Line::can_merge, Line::is_touching, util::is_collinear
#[kani::proof]
#[kani::stub(std::io::_print, crate::kstub::noop_print)]
fn o9_2_can_merge_exact_48() {
    exactness(48, 48, 400, 200);
}

//@ harness: o3_3_merge_pointset props=C03,C09 tier=thorough obl=O3.3 timeout=1800 mem=8
//@ desc: two lattice lines of the same axis class (horizontal or vertical), interval ends in 0..16 quarter units + cell offset <= 16: Line::merge = Some(l) => l covers exactly the union of both intervals (which is itself an interval) and is dashed iff one part is; None => the intervals do not touch or lie on different rows/columns
//@ encodes: Line::merge, Line::can_merge
#[kani::proof]
#[kani::stub(std::io::_print, crate::kstub::noop_print)]
fn o3_3_merge_pointset() {
    merge_pointset(16, 16);
}

//@ harness: o3_3_merge_pointset_small props=C03,C09 tier=quick obl=O3.3 timeout=800 mem=10
//@ desc: as o3_3_merge_pointset with interval ends in 0..8 quarter units + cell offset <= 4
//@ encodes: Line::merge, Line::can_merge
#[kani::proof]
#[kani::stub(std::io::_print, crate::kstub::noop_print)]
fn o3_3_merge_pointset_small() {
    merge_pointset(8, 4);
}

fn merge_pointset(m: i32, moff: i32) {
    let vertical: bool = kani::any();
    let off = any_in(0, moff) * 8;
    let r1 = off + any_in(0, m);
    let r2 = off + any_in(0, m);
    let a1 = off + any_in(0, m);
    let b1 = a1 + any_in(1, m);
    let a2 = off + any_in(0, m);
    let b2 = a2 + any_in(1, m);
    let br1: bool = kani::any();
    let br2: bool = kani::any();
    let (l1, l2) = if vertical {
        (lattice_line(r1, a1, r1, b1, br1), lattice_line(r2, a2, r2, b2, br2))
    } else {
        (lattice_line(a1, r1, b1, r1, br1), lattice_line(a2, r2, b2, r2, br2))
    };
    let m = l1.merge(&l2);
    let touch = r1 == r2 && a1 <= b2 && a2 <= b1;
    kani::cover!(m.is_some() && a2 > a1 && b2 < b1, "one interval inside the other");
    match m {
        Some(m) => {
            assert!(touch, "O3.3 only overlapping/touching intervals on one row merge");
            let lo = if a1 < a2 { a1 } else { a2 };
            let hi = if b1 > b2 { b1 } else { b2 };
            let hull = if vertical { lattice_line(r1, lo, r1, hi, false) } else { lattice_line(lo, r1, hi, r1, false) };
            assert!(m.start == hull.start && m.end == hull.end, "O3.3 merged line is exactly the union interval");
            assert!(m.is_broken == (br1 || br2), "O3.3 merged line dashed iff a part is");
        }
        None => assert!(!touch, "O3.3 touching intervals on one row do merge"),
    }
}

// ---------------------------------------------------------------------------
// C06 — translation invariance of the float predicates on lines

fn shifted(l: &Line, k: i32, n: i32) -> Line {
    l.absolute_position(Cell::new(k, n))
}

fn two_lines(max_len: i32, max_pos: i32) -> (Line, Line) {
    let d1: u8 = kani::any();
    let d2: u8 = kani::any();
    kani::assume(d1 < 4 && d2 < 4);
    let (s1x, s1y) = step(d1);
    let (s2x, s2y) = step(d2);
    let base = 2 * max_len;
    let a1x = any_in(0, max_pos);
    let a1y = base + any_in(0, max_pos);
    let t1 = any_in(1, max_len);
    let a2x = any_in(0, max_pos);
    let a2y = base + any_in(0, max_pos);
    let t2 = any_in(1, max_len);
    (
        lattice_line(a1x, a1y, a1x + t1 * s1x, a1y + t1 * s1y, kani::any()),
        lattice_line(a2x, a2y, a2x + t2 * s2x, a2y + t2 * s2y, kani::any()),
    )
}

//@ harness: o6_1_touching_exact props=C06,C05,C10 tier=quick obl=O6.1 timeout=800 mem=14
//@ desc: two axis-parallel lattice lines (horizontal or vertical each; diagonals in the thorough tier; 8x8 quarter-unit window, length <= 8) placed at any cell offset (k <= 8, n <= 8): is_touching at that position equals the exact integer predicate "an endpoint of one lies on the other" - which does not mention the offset, so touching (the basis of contact grouping and rectangle endorsement) is position independent
//@ encodes: Line::absolute_position, Cell::absolute_position, Line::is_touching, Line::touching_line, parry Segment::contains_point
#[kani::proof]
#[kani::stub(std::io::_print, crate::kstub::noop_print)]
fn o6_1_touching_exact() {
    touching_exact(8, 8, 2);
}

//@ harness: o6_1_touching_exact_400 props=C06,C05,C10 tier=stretch obl=O6.1 timeout=3400 mem=16
//@ desc: as o6_1_touching_exact with all 4 direction classes at any cell offset k <= 400, n <= 200
//@ encodes: Line::absolute_position, Line::is_touching, parry Segment::contains_point
#[kani::proof]
#[kani::stub(std::io::_print, crate::kstub::noop_print)]
fn o6_1_touching_exact_400() {
    touching_exact(400, 200, 4);
}

fn touching_exact(max_k: i32, max_n: i32, ndirs: u8) {
    let d1: u8 = kani::any();
    let d2: u8 = kani::any();
    kani::assume(d1 < ndirs && d2 < ndirs);
    let (s1x, s1y) = step(d1);
    let (s2x, s2y) = step(d2);
    // the offset is added on the integer lattice (that Line::absolute_position adds the
    // cell origin exactly in f32 is decided separately by o6_2_abs_position_shapes);
    // adding it in f32 here made the harness several times slower
    let offx = any_in(0, max_k) * 4;
    let offy = any_in(0, max_n) * 8 + 16;
    let (ax, ay) = (offx + any_in(0, 8), offy + any_in(0, 8));
    let t1 = any_in(1, 8);
    let (cx, cy) = (offx + any_in(0, 8), offy + any_in(0, 8));
    let t2 = any_in(1, 8);
    let (bx, by) = (ax + t1 * s1x, ay + t1 * s1y);
    let (dx, dy) = (cx + t2 * s2x, cy + t2 * s2y);
    let l1 = lattice_line(ax, ay, bx, by, false);
    let l2 = lattice_line(cx, cy, dx, dy, false);
    let expected = on_seg(ax, ay, bx, by, cx, cy) || on_seg(ax, ay, bx, by, dx, dy)
        || on_seg(cx, cy, dx, dy, ax, ay) || on_seg(cx, cy, dx, dy, bx, by);
    let got = l1.is_touching(&l2);
    kani::cover!(got && offx == max_k * 4, "a touching pair at the largest offset");
    kani::cover!(!got, "a non-touching pair");
    assert!(got == expected, "O6.1 is_touching is exact (hence position independent) at every offset");
}

//@ harness: o6_1_aabb_shift props=C06,C05 tier=quick obl=O6.1 timeout=800 mem=10
//@ desc: same two lines and shift: is_aabb_parallel and is_aabb_perpendicular give identical answers (the exact float comparisons rectangle endorsement is built on)
//@ encodes: Line::is_aabb_parallel, Line::is_aabb_perpendicular
#[kani::proof]
#[kani::stub(std::io::_print, crate::kstub::noop_print)]
fn o6_1_aabb_shift() {
    let (l1, l2) = two_lines(8, 8);
    let k = any_in(0, 400);
    let n = any_in(0, 200);
    let m1 = shifted(&l1, k, n);
    let m2 = shifted(&l2, k, n);
    kani::cover!(l1.is_aabb_parallel(&l2), "an aabb-parallel pair is explored");
    assert!(l1.is_aabb_parallel(&l2) == m1.is_aabb_parallel(&m2), "O6.1 is_aabb_parallel is translation invariant");
    assert!(l1.is_aabb_perpendicular(&l2) == m1.is_aabb_perpendicular(&m2), "O6.1 is_aabb_perpendicular is translation invariant");
}

// ---------------------------------------------------------------------------
// K-OVL: the one geometric primitive engine T re-implements (closed-segment
// containment, behind Property::line_overlap) against the real code

//@ harness: kovl_line_overlaps_exact props=C03,C12,C14 tier=quick obl=K-OVL timeout=800 mem=10
//@ desc: a signature line and two query points, all on the eighth-unit lattice of one cell ([0,1] x [0,2], the coordinates every table entry uses): the real Line::overlaps(a, b) (parry Segment::contains_point with its relative epsilon) <=> both points lie on the closed segment (exact integer cross/dot products) - the semantics engine T assumes when it turns `N.line_overlap(p, q)` into a set of characters
//@ encodes: Line::overlaps, Fragment::line_overlap, parry Segment::contains_point
#[kani::proof]
#[kani::stub(std::io::_print, crate::kstub::noop_print)]
fn kovl_line_overlaps_exact() {
    // eighth units: x in 0..8, y in 0..16
    let (sx, sy, ex, ey) = (any_in(0, 8), any_in(0, 16), any_in(0, 8), any_in(0, 16));
    kani::assume((sx, sy) != (ex, ey));
    let (ax, ay, bx, by) = (any_in(0, 8), any_in(0, 16), any_in(0, 8), any_in(0, 16));
    let p = |x: i32, y: i32| Point::new(x as f32 * 0.125, y as f32 * 0.125);
    let l = Line::new(p(sx, sy), p(ex, ey), false);
    let got = l.overlaps(p(ax, ay), p(bx, by));
    let expected = on_seg(sx, sy, ex, ey, ax, ay) && on_seg(sx, sy, ex, ey, bx, by);
    kani::cover!(got && (ax, ay) != (bx, by) && (ax, ay) != (sx, sy), "a proper sub-segment is covered");
    kani::cover!(!got, "a segment that is not covered");
    assert!(got == expected, "K-OVL Line::overlaps is exact closed-segment containment on the cell lattice");
}

// ---------------------------------------------------------------------------
// C14 — bullets: line + circle => marker line ending at the circle centre

//@ harness: o14_4_merge_circle props=C14 tier=quick obl=O14.4 timeout=800 mem=8
//@ desc: axis-parallel or diagonal lattice line (length from one quarter-unit step, i.e. shorter than the merge threshold so that BOTH ends are close, up to 40 cells) whose nearer end is within half a cell of a bullet circle's centre m (cell at offset <= 64x64): merge_circle yields a MarkerLine from the far end to exactly the circle centre, marker Circle/OpenCircle/BigOpenCircle by is_filled/radius, dashedness kept; atan stubbed by atan_axis (libm value +-1e-4 for the slopes 0, +-2, +-4, +-inf that lattice lines have; any f32 otherwise)
//@ encodes: Line::merge_circle, Line::heading, Direction::threshold_length, fragment::marker_line
#[kani::proof]
#[kani::stub(std::io::_print, crate::kstub::noop_print)]
#[kani::stub(f32::atan, crate::kstub::atan_axis)]
fn o14_4_merge_circle() {
    let dir: u8 = kani::any();
    kani::assume(dir < 4);
    let (sx, sy) = step(dir);
    // circle at the centre m of cell (cxl, cyl): m = (2, 4) quarter units
    let cxl = any_in(0, 64);
    let cyl = any_in(41, 105);
    let mx = cxl * 4 + 2;
    let my = cyl * 8 + 4;
    // radius: the three bullet radii of ascii_map: unit(1)*? use table values 0.25*{1,1.5? } keep symbolic among lattice eighths <= unit(3)
    let r8 = any_in(1, 6); // radius in eighths of a unit: 0.125 .. 0.75
    let radius = r8 as f32 * 0.125;
    let filled: bool = kani::any();
    let circle = Circle::new(p4(mx, my), radius, filled);
    // the line ends at the border of the bullet's cell on the line's axis
    // through m: distance 2 quarter units horizontally, 4 vertically, or a half diagonal
    let toward: bool = kani::any(); // which side of the circle the line is on
    let sgn = if toward { 1 } else { -1 };
    // the stub line a bullet draws inside its own cell ends at m (horizontal),
    // at h/r (vertical, 2 quarter units from m) or at g/i/q/s (diagonal, one
    // step from m); after merging, that is the near end of the whole line.
    // Every distance from 0 up to those is explored.
    let half = match dir {
        0 => any_in(0, 2),
        1 => any_in(0, 4),
        _ => any_in(0, 2),
    };
    let near_x = mx + sgn * half * sx;
    let near_y = my + sgn * half * sy;
    // length from one lattice step (the sub-cell stub a bullet draws inside its
    // own cell, before it is merged with the neighbour's line) up to 40 cells
    let len = any_in(1, 40 * (if dir == 1 { 8 } else { 4 }));
    let far_x = near_x + sgn * len * sx;
    let far_y = near_y + sgn * len * sy;
    let broken: bool = kani::any();
    let line = lattice_line(near_x, near_y, far_x, far_y, broken);
    let m = line.merge_circle(&circle);
    kani::cover!(m.is_some(), "the bullet merges");
    kani::cover!(m.is_some() && len == 1 && dir == 1 && !toward, "a one-step stub below the bullet merges");
    match m {
        Some(Fragment::MarkerLine(ml)) => {
            assert!(ml.line.end == circle.center, "O14.4 marked end is the centre of the bullet's cell");
            assert!(ml.line.start == p4(far_x, far_y), "O14.4 the far end is unchanged");
            assert!(ml.line.is_broken == broken, "O14.4 dashedness kept");
            assert!(ml.start_marker.is_none(), "O14.4 no marker on the far end");
            let expect = if filled {
                Marker::Circle
            } else if radius >= 0.5 {
                Marker::BigOpenCircle
            } else {
                Marker::OpenCircle
            };
            assert!(ml.end_marker == Some(expect), "O14.4 marker kind follows is_filled / radius");
        }
        Some(_) => assert!(false, "O14.4 merge_circle yields a marker line"),
        None => assert!(false, "O14.4 a line ending at the bullet cell's border merges with the bullet"),
    }
}

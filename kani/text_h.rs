//@ target: src/buffer/fragment_buffer/fragment/text.rs
// Harnesses for the text sink (C02, C08) and text placement (C04).
// Injected as a child module of fragment::text, so the private functions
// `replace_html_char`, `escape_html_text`, `CellText::end_cell/cells/...` are
// called directly: this is the code that builds every <text> node.
#![allow(warnings)]
use super::*;
use crate::kstub::*;
use unicode_width::UnicodeWidthChar;

// ---------------------------------------------------------------------------
// oracles (written from the XML 1.0 specification, not from svgbob)

/// XML 1.0 production [2] Char
fn is_xml_char(c: u32) -> bool {
    c == 0x9
        || c == 0xA
        || c == 0xD
        || (c >= 0x20 && c <= 0xD7FF)
        || (c >= 0xE000 && c <= 0xFFFD)
        || (c >= 0x10000 && c <= 0x10FFFF)
}

fn bytes_eq(a: &[u8], b: &[u8]) -> bool {
    if a.len() != b.len() {
        return false;
    }
    let mut i = 0;
    while i < a.len() {
        if a[i] != b[i] {
            return false;
        }
        i += 1;
    }
    true
}

/// decode one XML reference `&...;` occupying the whole of `b`.
/// Returns the scalar it denotes, or None when `b` is not a single reference.
fn decode_reference(b: &[u8]) -> Option<u32> {
    let n = b.len();
    if n < 4 || b[0] != b'&' || b[n - 1] != b';' {
        return None;
    }
    if bytes_eq(b, b"&lt;") {
        return Some('<' as u32);
    }
    if bytes_eq(b, b"&gt;") {
        return Some('>' as u32);
    }
    if bytes_eq(b, b"&amp;") {
        return Some('&' as u32);
    }
    if bytes_eq(b, b"&quot;") {
        return Some('"' as u32);
    }
    if bytes_eq(b, b"&apos;") {
        return Some('\'' as u32);
    }
    if b[1] != b'#' {
        return None;
    }
    let (hex, mut i) = if b[2] == b'x' { (true, 3) } else { (false, 2) };
    if i >= n - 1 {
        return None;
    }
    let mut v: u32 = 0;
    while i < n - 1 {
        let d = b[i];
        let dv = if d >= b'0' && d <= b'9' {
            (d - b'0') as u32
        } else if hex && d >= b'a' && d <= b'f' {
            (d - b'a') as u32 + 10
        } else if hex && d >= b'A' && d <= b'F' {
            (d - b'A') as u32 + 10
        } else {
            return None;
        };
        v = v * (if hex { 16 } else { 10 }) + dv;
        if v > 0x10FFFF {
            return None;
        }
        i += 1;
    }
    Some(v)
}

/// The obligation on what the text sink writes for ONE input character.
/// `out` = bytes written to the text node for `c`.
///   (i)   every byte sequence written is made of XML Chars;
///   (ii)  `<`, `&` and `>` never appear raw (`>` because `]]>` must not occur
///         in character data and the escaper works per character);
///   (iii) an XML parser reading `out` gets back exactly `c`, or `out` is empty
///         and then `c` is NUL (filler) or a character XML cannot represent.
/// Quotes may be written raw or escaped: both are well-formed in a text node.
fn text_sink_ok(c: char, out: &[u8]) -> (bool, bool, bool) {
    let cu = c as u32;
    let n = out.len();
    if n == 0 {
        // dropped
        let ok = cu == 0 || !is_xml_char(cu);
        return (true, true, ok);
    }
    if out[0] == b'&' {
        // must be exactly one reference, denoting c, and c must be representable
        match decode_reference(out) {
            Some(v) => {
                let legal = is_xml_char(v);
                (legal, true, v == cu)
            }
            None => (true, false, false),
        }
    } else {
        // raw: must be the UTF-8 encoding of c itself
        let mut buf = [0u8; 4];
        let enc = c.encode_utf8(&mut buf).as_bytes();
        let same = bytes_eq(out, enc);
        let legal = is_xml_char(cu);
        let markup_free = cu != '<' as u32 && cu != '&' as u32 && cu != '>' as u32;
        (legal || !same, markup_free || !same, same)
    }
}

// ---------------------------------------------------------------------------
// O2.1 / O8.1

//@ harness: o2_1_text_sink_char props=C02,C08 tier=quick obl=O2.1 timeout=600 mem=8
//@ desc: replace_html_char(c) for EVERY Unicode scalar c (0x110000-2048 values, no bound): output bytes are XML-legal, carry no raw < & >, and decode back to c (or c is dropped and is NUL/unrepresentable)
//@ encodes: fragment::text::replace_html_char
#[kani::proof]
#[kani::stub(std::io::_print, crate::kstub::noop_print)]
#[kani::unwind(12)]
fn o2_1_text_sink_char() {
    let c: char = kani::any();
    let s = replace_html_char(c);
    let out = s.as_bytes();
    kani::assume(out.len() <= 10); // longest reference "&#x10FFFF;" — checked next
    let (legal, markup_free, roundtrip) = text_sink_ok(c, out);
    kani::cover!(out.len() == 0, "some char is dropped");
    kani::cover!(out.len() == 4 && out[0] == b'&', "some char becomes an entity");
    kani::cover!(out.len() == 4 && out[0] != b'&', "a 4-byte char passes raw");
    assert!(legal, "O2.1(i) text sink writes only XML Chars");
    assert!(markup_free, "O2.1(ii) text sink never writes raw < & >");
    assert!(roundtrip, "O2.1(iii) text sink output decodes back to the input char");
}

//@ harness: o2_1_text_sink_len props=C02,C08 tier=quick obl=O2.1 timeout=300 mem=8
//@ desc: replace_html_char(c) never writes more than 10 bytes (discharges the assume of o2_1_text_sink_char), all scalars
//@ encodes: fragment::text::replace_html_char
#[kani::proof]
#[kani::stub(std::io::_print, crate::kstub::noop_print)]
fn o2_1_text_sink_len() {
    let c: char = kani::any();
    let s = replace_html_char(c);
    assert!(s.len() <= 10, "O2.1 output of one char is at most one reference long");
}

// ---------------------------------------------------------------------------
// O2.2  escape_html_text is the per-character map, in order

//@ harness: o2_2_escape_is_map1 props=C02,C08 tier=thorough obl=O2.2 timeout=1800 mem=16
//@ desc: escape_html_text on every 1-char string equals replace_html_char(c) (char unrestricted): the text leaf is built from the per-character escaper and nothing else
//@ encodes: fragment::text::escape_html_text, fragment::text::replace_html_char
#[kani::proof]
#[kani::stub(std::io::_print, crate::kstub::noop_print)]
#[kani::unwind(12)]
fn o2_2_escape_is_map1() {
    let c1: char = kani::any();
    let mut input = String::with_capacity(4);
    input.push(c1);
    let got = escape_html_text(&input);
    let e1 = replace_html_char(c1);
    let g = got.as_bytes();
    let a = e1.as_bytes();
    kani::assume(a.len() <= 10);
    kani::cover!(a.len() == 4 && a[0] == b'&', "an entity");
    kani::cover!(a.len() == 0, "a dropped char");
    assert!(g.len() == a.len(), "O2.2 escape_html_text of one char has the escaper's length");
    let mut i = 0;
    while i < a.len() {
        assert!(g[i] == a[i], "O2.2 escape_html_text of one char is the escaper's output");
        i += 1;
    }
    std::mem::forget(got);
    std::mem::forget(input);
}

fn escape_is_map1(lo: u32, hi: u32) {
    let c1: char = kani::any();
    kani::assume((c1 as u32) >= lo && (c1 as u32) <= hi);
    let mut input = String::with_capacity(4);
    input.push(c1);
    let got = escape_html_text(&input);
    let e1 = replace_html_char(c1);
    let g = got.as_bytes();
    let a = e1.as_bytes();
    kani::assume(a.len() <= 10);
    kani::cover!(a.len() > 0, "a char that is written");
    assert!(g.len() == a.len(), "O2.2 escape_html_text of one char has the escaper's length");
    let mut i = 0;
    while i < a.len() {
        assert!(g[i] == a[i], "O2.2 escape_html_text of one char is the escaper's output");
        i += 1;
    }
    std::mem::forget(got);
    std::mem::forget(input);
}

//@ harness: o2_2_escape_is_map1_bmp1 props=C02,C08 tier=quick obl=O2.2 timeout=800 mem=26
//@ desc: escape_html_text on every 1-char string with c < U+0800 (1- and 2-byte chars: all markup characters, C0/C1 controls, Latin) equals replace_html_char(c): the text leaf is built from the per-character escaper and nothing else
//@ encodes: fragment::text::escape_html_text, fragment::text::replace_html_char
#[kani::proof]
#[kani::stub(std::io::_print, crate::kstub::noop_print)]
#[kani::unwind(12)]
fn o2_2_escape_is_map1_bmp1() {
    escape_is_map1(0, 0x7FF);
}

//@ harness: o2_2_escape_is_map1_bmp3 props=C02,C08 tier=quick obl=O2.2 timeout=800 mem=26
//@ desc: as o2_2_escape_is_map1_bmp1 for every 3-byte char U+0800..U+FFFF (incl. U+FFFE/U+FFFF and CJK)
//@ encodes: fragment::text::escape_html_text, fragment::text::replace_html_char
#[kani::proof]
#[kani::stub(std::io::_print, crate::kstub::noop_print)]
#[kani::unwind(12)]
fn o2_2_escape_is_map1_bmp3() {
    escape_is_map1(0x800, 0xFFFF);
}

//@ harness: o2_2_escape_is_map1_astral props=C02,C08 tier=thorough obl=O2.2 timeout=900 mem=22
//@ desc: as o2_2_escape_is_map1_bmp1 for every 4-byte char U+10000..U+10FFFF
//@ encodes: fragment::text::escape_html_text, fragment::text::replace_html_char
#[kani::proof]
#[kani::stub(std::io::_print, crate::kstub::noop_print)]
#[kani::unwind(12)]
fn o2_2_escape_is_map1_astral() {
    escape_is_map1(0x10000, 0x10FFFF);
}

// ---------------------------------------------------------------------------
// C04 — text placement

/// number of display columns a character occupies in the column-expanded
/// string buffer (string_buffer.rs: the char itself plus width-1 NUL fillers)
fn columns(c: char) -> i32 {
    match c.width() {
        Some(w) if w >= 1 => w as i32,
        _ => 1,
    }
}

fn one_char_text(x: i32, y: i32, c: char) -> CellText {
    let mut s = String::with_capacity(4);
    s.push(c);
    CellText::new(Cell::new(x, y), s)
}

//@ harness: o4_1_can_merge_1x1 props=C04 tier=quick obl=O4.1 timeout=800 mem=10
//@ desc: two one-character texts (chars unrestricted, columns <= 1000, gap -4..4, rows symbolic): can_merge <=> same row and one starts at the display column where the other ends (width of a char = columns it occupies in the string buffer: 2 for double-width, else 1)
//@ encodes: CellText::can_merge
#[kani::proof]
#[kani::stub(std::io::_print, crate::kstub::noop_print)]
#[kani::unwind(8)]
fn o4_1_can_merge_1x1() {
    let c1: char = kani::any();
    let c2: char = kani::any();
    kani::assume(c1 != '\0' && c2 != '\0');
    let x1 = any_in(0, 1000);
    let d = any_in(-4, 4);
    let x2 = x1 + d;
    kani::assume(x2 >= 0);
    let y1 = any_in(0, 1000);
    let y2 = any_in(0, 1000);
    let a = one_char_text(x1, y1, c1);
    let b = one_char_text(x2, y2, c2);
    let expected = y1 == y2 && (x1 + columns(c1) == x2 || x2 + columns(c2) == x1);
    let got = a.can_merge(&b);
    kani::cover!(got && columns(c1) == 2, "a double-width char merges with its right neighbour");
    kani::cover!(got && c1.len_utf8() == 2, "a 2-byte char merges");
    kani::cover!(!got && y1 == y2, "same row, not adjacent");
    if expected {
        assert!(got, "O4.1 texts at consecutive display columns merge");
    } else {
        assert!(!got, "O4.1 texts not at consecutive display columns do not merge");
    }
    std::mem::forget(a);
    std::mem::forget(b);
}

//@ harness: o4_2_merge_start props=C04 tier=quick obl=O4.2 timeout=800 mem=20
//@ desc: CellText::merge of two one-character texts on one row (chars unrestricted, gap -3..3, either call order): Some exactly when the texts occupy consecutive display columns, and the merged text starts at the smaller column of the same row; format! is stubbed (the concatenated content is NOT observed - outside the claim)
//@ encodes: CellText::merge, CellText::can_merge
#[kani::proof]
#[kani::stub(std::io::_print, crate::kstub::noop_print)]
#[kani::unwind(8)]
#[kani::stub(alloc::fmt::format, crate::kstub::stub_format)]
fn o4_2_merge_start() {
    let c1: char = kani::any();
    let c2: char = kani::any();
    kani::assume(c1 != '\0' && c2 != '\0');
    let x1 = any_in(0, 1000);
    let y = any_in(0, 1000);
    let x2 = x1 + any_in(-3, 3);
    kani::assume(x2 >= 0);
    let a = one_char_text(x1, y, c1);
    let b = one_char_text(x2, y, c2);
    let expected = x1 + columns(c1) == x2 || x2 + columns(c2) == x1;
    let m = a.merge(&b);
    kani::cover!(m.is_some() && x2 < x1, "merge called right-to-left");
    kani::cover!(m.is_some() && x2 > x1, "merge called left-to-right");
    match m {
        Some(m) => {
            assert!(expected, "O4.2 merge only at consecutive display columns");
            let lo = if x1 < x2 { x1 } else { x2 };
            assert!(m.start.x == lo && m.start.y == y, "O4.2 merged text starts at the left text's cell");
            std::mem::forget(m);
        }
        None => assert!(!expected, "O4.2 texts at consecutive display columns merge"),
    }
    std::mem::forget(a);
    std::mem::forget(b);
}

// NOTE (tried, out of reach): CellText::is_contacting on two one-character texts (nested `any`
// over the cells() ranges with symbolic widths) ran out of 30 GB.

//@ harness: o4_3_anchor_in_cell props=C04,C12 tier=quick obl=O4.3 timeout=600 mem=8
//@ desc: Text::from(CellText) anchors the text strictly inside its start cell (cell coords 0..100000), content unchanged; absolute_position shifts the start cell only
//@ encodes: From<CellText> for Text, Cell::q, CellText::absolute_position
#[kani::proof]
#[kani::stub(std::io::_print, crate::kstub::noop_print)]
#[kani::unwind(8)]
fn o4_3_anchor_in_cell() {
    let c: char = kani::any();
    let x = any_in(0, 100000);
    let y = any_in(0, 100000);
    let ct = one_char_text(x, y, c);
    let dx = any_in(0, 100000);
    let dy = any_in(0, 100000);
    let moved = ct.absolute_position(Cell::new(dx, dy));
    assert!(moved.start.x == x + dx && moved.start.y == y + dy, "O4.3 absolute_position adds the cell offset");
    assert!(moved.content.len() == ct.content.len(), "O4.3 absolute_position keeps the content");
    let t: Text = ct.into();
    let left = x as f32; // cell width 1
    let top = (2 * y) as f32; // cell height 2
    assert!(t.start.x > left && t.start.x < left + 1.0, "O4.3 anchor x strictly inside the start cell");
    assert!(t.start.y > top && t.start.y < top + 2.0, "O4.3 anchor y strictly inside the start cell");
    let mut b1 = [0u8; 4];
    let e1 = c.encode_utf8(&mut b1).as_bytes();
    assert!(bytes_eq(t.text.as_bytes(), e1), "O4.3 Text carries the CellText content");
    std::mem::forget(t);
    std::mem::forget(moved);
}

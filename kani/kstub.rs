// Shared stubs for the Kani harnesses (engine K).  Injected into the scratch
// copy of the crate as `crate::kstub` under #[cfg(kani)].  Every stub is part
// of the claim of the harness that uses it and is listed in the evidence.
#![allow(dead_code, unused)]

use std::alloc::Allocator;

/// Capacity given to every `Vec::new()` in a harness that uses the bounded-Vec
/// stubs.  `push_nogrow` asserts that this capacity is never exceeded; the
/// assertion carries the marker KSTUB-BOUND, which the driver classifies as a
/// *bound check* (failure => INCONCLUSIVE, never green, never a VIOLATION).
pub const CAP: usize = 16;

/// replaces `std::vec::Vec::new`: same value, pre-allocated capacity.
pub fn vec_new_cap<T>() -> Vec<T> {
    Vec::with_capacity(CAP)
}

/// as vec_new_cap with a small capacity, for harnesses whose element type is large
/// (FragmentTree): fewer bytes for CBMC to model.  Same overflow assertion applies.
pub fn vec_new_small<T>() -> Vec<T> {
    Vec::with_capacity(4)
}

/// replaces `std::vec::Vec::push`: identical whenever len < capacity.
pub fn push_nogrow<T, A: Allocator>(v: &mut Vec<T, A>, x: T) {
    let len = v.len();
    assert!(len < v.capacity(), "KSTUB-BOUND bounded Vec capacity exceeded");
    unsafe {
        std::ptr::write(v.as_mut_ptr().add(len), x);
        v.set_len(len + 1);
    }
}

/// replaces `alloc::fmt::format` where the formatted text is not observed.
pub fn stub_format(_args: std::fmt::Arguments<'_>) -> String {
    String::new()
}

/// replaces `f32::atan`: any f32 (over-approximation of libm).
pub fn any_atan(_x: f32) -> f32 {
    kani::any()
}

/// replaces `f32::atan` in the marker harnesses: for the only slopes that
/// lattice cell segments have (svgbob's `slope()` doubles dy, so 0, +-2, +-4,
/// +-inf) any value within 1e-4 of the mathematical arctangent (libm's result
/// is within 1 ulp of it, so this over-approximates libm); any f32 otherwise.
pub fn atan_axis(x: f32) -> f32 {
    let exact: f32 = if x == 0.0 {
        return x;
    } else if x == f32::INFINITY {
        std::f32::consts::FRAC_PI_2
    } else if x == f32::NEG_INFINITY {
        -std::f32::consts::FRAC_PI_2
    } else if x == 2.0 {
        1.1071488
    } else if x == -2.0 {
        -1.1071488
    } else if x == 4.0 {
        1.3258177
    } else if x == -4.0 {
        -1.3258177
    } else {
        return kani::any();
    };
    let r: f32 = kani::any();
    kani::assume(r >= exact - 1.0e-4 && r <= exact + 1.0e-4);
    r
}

/// replaces `f32::powf`: exact square for exponent 2, any f32 otherwise.
pub fn powf_sq(x: f32, e: f32) -> f32 {
    if e == 2.0 {
        x * x
    } else {
        kani::any()
    }
}

/// replaces `f32::sqrt` where only exact squares of dyadic lattice values occur:
/// returns some r >= 0 with r*r == x when one exists (checked), else any value.
/// (Not used unless a harness says so.)
pub fn sqrt_exact_or_any(x: f32) -> f32 {
    let r: f32 = kani::any();
    if r >= 0.0 && r * r == x {
        r
    } else {
        x.sqrt()
    }
}

// ---------------------------------------------------------------------------
// lattice helpers shared by harnesses

/// quarter-unit lattice value n/4 as f32 (exact for |n| < 2^22)
pub fn q4(n: i32) -> f32 {
    n as f32 * 0.25
}

/// any u32 <= max
pub fn any_le(max: u32) -> u32 {
    let v: u32 = kani::any();
    kani::assume(v <= max);
    v
}

/// any i32 in [lo, hi]
pub fn any_in(lo: i32, hi: i32) -> i32 {
    let v: i32 = kani::any();
    kani::assume(v >= lo && v <= hi);
    v
}

/// replaces `std::io::_print` (the body of `println!`): printing is not the
/// subject of any harness.  svgbob prints in `util::ord`'s NaN branch and in a
/// few debugging spots; the formatting code of `{}` on f32 is very expensive to
/// execute symbolically.
pub fn noop_print(_args: std::fmt::Arguments<'_>) {}

//@ target: src/point.rs
// Harnesses on Point ordering / equality: every geometric predicate of svgbob
// (touching, endpoint sharing, normalisation of lines and arcs, sorting) rests
// on it, so its behaviour under translation is part of C06 and its totality
// part of C01.
#![allow(warnings)]
use super::*;
use crate::kstub::*;

fn p8(nx: i32, ny: i32) -> Point {
    Point::new(nx as f32 * 0.125, ny as f32 * 0.125)
}

//@ harness: o6_1_point_order_shift props=C06,C01 tier=quick obl=O6.1 timeout=600 mem=8
//@ desc: two points on the eighth-unit lattice within a 64x64-unit window, compared at the origin and after adding the same cell offset (k <= 400, n <= 200): Point::cmp, ==, < give identical answers, and they agree with the exact integer comparison of the lattice numerators in (y, x) order (so two distinct lattice points are never 'equal', at any position)
//@ encodes: Point::cmp, Point::eq, Point::partial_cmp, util::ord
#[kani::proof]
#[kani::stub(std::io::_print, crate::kstub::noop_print)]
fn o6_1_point_order_shift() {
    let (ax, ay, bx, by) = (any_in(0, 512), any_in(0, 512), any_in(0, 512), any_in(0, 512));
    let k = any_in(0, 400);
    let n = any_in(0, 200);
    let a = p8(ax, ay);
    let b = p8(bx, by);
    let off = Point::new(k as f32, 2.0 * n as f32);
    let a2 = a + off;
    let b2 = b + off;
    let exact = if ay != by { ay.cmp(&by) } else { ax.cmp(&bx) };
    kani::cover!(exact == Ordering::Equal, "equal points are explored");
    kani::cover!(ay == by && ax + 1 == bx && k == 400, "neighbouring lattice points far from the origin");
    assert!(a.cmp(&b) == exact, "O6.1 Point ordering is the exact (y, x) order on the lattice");
    assert!(a2.cmp(&b2) == exact, "O6.1 Point ordering does not depend on the position on the page");
    assert!((a2 == b2) == (exact == Ordering::Equal), "O6.1 Point equality is exact at every position");
    assert!((a2 < b2) == (exact == Ordering::Less), "O6.1 Point < is exact at every position");
}

//@ harness: o1_1_ord_trichotomy props=C01,C06 tier=quick obl=O1.1 timeout=600 mem=8
//@ desc: util::ord on ALL pairs of f32: returns Equal/Greater/Less exactly as the IEEE comparison does for non-NaN operands and reaches its unreachable!() iff an operand is NaN (checked: never for non-NaN operands, infinities included)
//@ encodes: util::ord, util::opt_ord
#[kani::proof]
#[kani::stub(std::io::_print, crate::kstub::noop_print)]
fn o1_1_ord_trichotomy() {
    let a: f32 = kani::any();
    let b: f32 = kani::any();
    kani::assume(a == a && b == b); // not NaN
    let o = util::ord(a, b);
    assert!((o == Ordering::Equal) == (a == b), "O1.1 ord is Equal exactly for equal floats");
    assert!((o == Ordering::Greater) == (a > b), "O1.1 ord is Greater exactly for a > b");
    assert!((o == Ordering::Less) == (a < b), "O1.1 ord is Less exactly for a < b");
    let oo = util::opt_ord(Some(a), None);
    assert!(oo == Ordering::Greater, "O1.1 opt_ord: Some > None");
}

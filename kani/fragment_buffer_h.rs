//@ target: src/buffer/fragment_buffer.rs
// Harness on FragmentBuffer::merge_fragment_spans: the call site that merges
// all fragments of a span before they are grouped (C09: no two output lines
// are collinear and touching).
#![allow(warnings)]
use super::*;
use crate::kstub::*;
use crate::fragment::Line;
use crate::Point;

// All fragments in these harnesses are Lines, but after they have travelled through
// the Vecs of the merge loop CBMC no longer knows the enum discriminant and executes
// every arm of Fragment::merge.  The two arms that cannot occur here are given
// trivial bodies (they are never called on Lines; if one were, the harness's own
// fixpoint assertion would be evaluated on whatever it returned).
fn stub_merge_circle(_l: &Line, _c: &crate::fragment::Circle) -> Option<Fragment> {
    None
}
fn stub_celltext_merge(_a: &crate::fragment::CellText, _b: &crate::fragment::CellText) -> Option<crate::fragment::CellText> {
    None
}

fn hline(y: i32, a: i32, b: i32) -> FragmentSpan {
    FragmentSpan::new(
        Span(Vec::with_capacity(1)),
        Fragment::Line(Line::new(Point::new(a as f32 * 0.25, y as f32 * 0.25), Point::new(b as f32 * 0.25, y as f32 * 0.25), false)),
    )
}

//@ harness: o9_6_span_fragments_fixpoint props=C09 tier=stretch obl=O9.6 timeout=3400 mem=24
//@ desc: FragmentBuffer holding three symbolic horizontal lattice lines on one row (interval ends 0..12 quarter units, any order, overlapping / touching / separate) in one cell: merge_fragment_spans returns lines no two of which can still merge, and every lattice point covered before is covered after (the real Fragment/Line merge under the real merge loop, at its real call site); bounded Vec
//@ encodes: FragmentBuffer::merge_fragment_spans, FragmentBuffer::abs_fragment_spans, FragmentSpan::merge, Fragment::merge, Line::merge, Merge::merge_recursive
#[kani::proof]
#[kani::stub(std::io::_print, crate::kstub::noop_print)]
#[kani::unwind(7)]
#[kani::stub(std::vec::Vec::new, crate::kstub::vec_new_cap)]
#[kani::stub(std::vec::Vec::push, crate::kstub::push_nogrow)]
fn o9_6_span_fragments_fixpoint() {
    let y = any_in(0, 8);
    let mut lo = [0i32; 3];
    let mut hi = [0i32; 3];
    let mut i = 0;
    while i < 3 {
        lo[i] = any_in(0, 11);
        hi[i] = any_in(1, 12);
        kani::assume(lo[i] < hi[i]);
        i += 1;
    }
    let mut v: Vec<FragmentSpan> = Vec::with_capacity(4);
    v.push(hline(y, lo[0], hi[0]));
    v.push(hline(y, lo[1], hi[1]));
    v.push(hline(y, lo[2], hi[2]));
    let mut fb = FragmentBuffer::new();
    fb.insert(Cell::new(0, 0), v);
    let out = fb.merge_fragment_spans();
    let n = out.len();
    assert!(n >= 1 && n <= 3, "O9.6 merging neither loses everything nor invents fragments");
    kani::cover!(n == 1, "all three merge into one line");
    kani::cover!(n == 2, "a partial merge");
    kani::cover!(n == 3, "nothing merges");
    let mut a = 0;
    while a < n {
        let mut b = a + 1;
        while b < n {
            assert!(out[a].fragment.merge(&out[b].fragment).is_none(), "O9.6 no two fragments of a span can still merge after merge_fragment_spans");
            b += 1;
        }
        a += 1;
    }
    // coverage of an arbitrary lattice sub-segment [p, p+1] is preserved
    let p = any_in(0, 11);
    let covered_before = (lo[0] <= p && p + 1 <= hi[0]) || (lo[1] <= p && p + 1 <= hi[1]) || (lo[2] <= p && p + 1 <= hi[2]);
    let mut covered_after = false;
    let mut j = 0;
    while j < n {
        if let Fragment::Line(l) = &out[j].fragment {
            if l.start.y == y as f32 * 0.25 && l.end.y == l.start.y && l.start.x <= p as f32 * 0.25 && (p + 1) as f32 * 0.25 <= l.end.x {
                covered_after = true;
            }
        }
        j += 1;
    }
    assert!(covered_before == covered_after, "O9.6 merging preserves the stroked point set");
    std::mem::forget(out);
    std::mem::forget(fb);
}

//@ harness: o9_6_bridge_fixpoint props=C09 tier=stretch obl=O9.6 timeout=3400 mem=20
//@ desc: FragmentBuffer holding, in this order, the fixed horizontal lines [0,2] and [4,6] and a third line [lo,hi] (symbolic, 0 <= lo < hi <= 8 quarter units, same row) that may bridge them: merge_fragment_spans returns lines no two of which can still merge (a single greedy sweep would leave [0,2] next to the merged rest); the minimal situation in which the repeat-until-stable loop at this call site matters; bounded Vec; the Line+Circle and CellText+CellText arms of Fragment::merge, which cannot occur with lines, are stubbed by None
//@ encodes: FragmentBuffer::merge_fragment_spans, FragmentBuffer::abs_fragment_spans, FragmentSpan::merge, Fragment::merge, Line::merge, Merge::merge_recursive
#[kani::proof]
#[kani::stub(std::io::_print, crate::kstub::noop_print)]
#[kani::unwind(4)]
#[kani::stub(std::vec::Vec::new, crate::kstub::vec_new_cap)]
#[kani::stub(std::vec::Vec::push, crate::kstub::push_nogrow)]
fn o9_6_bridge_fixpoint() {
    let lo = any_in(0, 7);
    let hi = any_in(1, 8);
    kani::assume(lo < hi);
    let mut v: Vec<FragmentSpan> = Vec::with_capacity(4);
    v.push(hline(4, 0, 2));
    v.push(hline(4, 4, 6));
    v.push(hline(4, lo, hi));
    let mut fb = FragmentBuffer::new();
    fb.insert(Cell::new(0, 0), v);
    let out = fb.merge_fragment_spans();
    let n = out.len();
    let bridges = lo <= 2 && hi >= 4;
    kani::cover!(bridges, "the third line bridges the two others");
    kani::cover!(n == 3, "nothing merges");
    if bridges {
        assert!(n == 1, "O9.6 two lines bridged by a third end up as one line");
    }
    let mut a = 0;
    while a < n {
        let mut b = a + 1;
        while b < n {
            assert!(out[a].fragment.merge(&out[b].fragment).is_none(), "O9.6 no two fragments of a span can still merge after merge_fragment_spans");
            b += 1;
        }
        a += 1;
    }
    std::mem::forget(out);
    std::mem::forget(fb);
}

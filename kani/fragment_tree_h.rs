//@ target: src/buffer/fragment_buffer/fragment_tree.rs
// Harnesses on the containment tree (C10: nothing lost or duplicated; C16:
// a {tag} styles the innermost enclosing shape and is not rendered).
// Fragment::as_css_tag needs the pom parser (out of Kani's reach), so it is
// stubbed: the designated carrier fragment (a CellText whose content starts
// with '{') yields the harness-chosen tag list, everything else yields [].
#![allow(warnings)]
use super::*;
use crate::kstub::*;
use crate::buffer::Span;
use crate::fragment::rect;
use crate::{Cell, Point};

fn p4(nx: i32, ny: i32) -> Point {
    Point::new(nx as f32 * 0.25, ny as f32 * 0.25)
}

fn fs(f: Fragment) -> FragmentSpan {
    FragmentSpan::new(Span(Vec::with_capacity(1)), f)
}

/// stub for Fragment::as_css_tag.  The real one runs the pom tag parser on the
/// text of a CellText/Text fragment (out of Kani's reach).  The containment tree
/// never looks at the kind of the fragment it places (only at its bounds, through
/// can_fit, and at as_css_tag), so the harnesses use a small FILLED rect as the
/// designated tag carrier and an unfilled one as ordinary content: no strings, and
/// bounds that are exact.
fn stub_css_tag(f: &Fragment) -> Vec<String> {
    let mut out: Vec<String> = Vec::with_capacity(2);
    if let Fragment::Rect(r) = f {
        if r.is_filled {
            out.push(String::new());
        }
    }
    out
}

/// probe occupying exactly the cell (cx, cy)
fn probe_frag(cx: i32, cy: i32, tag: bool) -> Fragment {
    rect(
        Point::new(cx as f32, 2.0 * cy as f32),
        Point::new(cx as f32 + 1.0, 2.0 * cy as f32 + 2.0),
        tag,
        false,
    )
}

fn count_nodes(t: &FragmentTree) -> usize {
    // depth <= 2 and at most 2 children in these harnesses; written without loops so
    // that the harness can run with the smallest unwinding bound
    let n = t.enclosing.len();
    let mut c = 1 + n;
    if n >= 1 {
        c += t.enclosing[0].enclosing.len();
    }
    if n >= 2 {
        c += t.enclosing[1].enclosing.len();
    }
    c
}

/// outer box: x in [0.5, 20.5], y in [1, 21] (cells 0..20 x 0..10); inner box:
/// x in [5.5, 15.5], y in [7, 15].  The probe is the rectangle of one symbolic
/// cell of a 30x15 window; it is inside a box iff its cell rectangle is inside
/// the box rectangle (exact comparison, no margins needed).
fn tree_step(with_child: bool, tag: bool) {
    tree_step_at(with_child, tag, any_in(0, 30), any_in(0, 15));
}

fn tree_step_at(with_child: bool, tag: bool, cx: i32, cy: i32) {
    let outer = rect(Point::new(0.5, 1.0), Point::new(20.5, 21.0), false, false);
    let inner = rect(Point::new(5.5, 7.0), Point::new(15.5, 15.0), false, false);
    let mut root = FragmentTree::new(fs(outer));
    if with_child {
        root.enclosing.push(FragmentTree::new(fs(inner)));
    }
    // cell rectangle [cx, cx+1] x [2cy, 2cy+2]
    let in_outer = cx >= 1 && cx <= 19 && cy >= 1 && cy <= 9;
    let in_inner = with_child && cx >= 6 && cx <= 14 && cy >= 4 && cy <= 6;
    let in_outer_only = in_outer && !in_inner;
    let outside = !in_outer;
    let probe = FragmentTree::new(fs(probe_frag(cx, cy, tag)));
    let before = count_nodes(&root);
    let took = root.enclose_deep_first(&probe);
    let after = count_nodes(&root);
    kani::cover!(!with_child || (took && in_inner), "probe lands in the inner box (when there is one)");
    kani::cover!(took && in_outer_only, "probe lands in the outer box only");
    kani::cover!(!took, "probe lies outside");
    if outside {
        assert!(!took, "O10.3 a fragment outside every shape is not enclosed");
        assert!(after == before && root.css_tag.len() == 0, "O10.3 the tree is unchanged when nothing encloses the fragment");
        if with_child {
            assert!(root.enclosing[0].css_tag.len() == 0 && root.enclosing[0].enclosing.len() == 0, "O10.3 the child is unchanged when nothing encloses the fragment");
        }
    } else {
        assert!(took, "O10.3 a fragment inside a shape's bounding box is enclosed by it");
        if tag {
            // C16: the tag goes to the innermost enclosing shape only and is not rendered
            assert!(after == before, "O16.1 a {tag} is not added as a node (it is not rendered)");
            if in_inner {
                assert!(root.enclosing[0].css_tag.len() == 1 && root.css_tag.len() == 0, "O16.1 the innermost enclosing shape receives the tag, the outer one does not");
            } else {
                assert!(root.css_tag.len() == 1, "O16.1 the enclosing shape receives the tag");
                if with_child {
                    assert!(root.enclosing[0].css_tag.len() == 0, "O16.1 a shape that does not enclose the tag is not styled");
                }
            }
        } else {
            // C10: exactly one node added, no styling
            assert!(after == before + 1, "O10.3 an enclosed fragment is added exactly once");
            assert!(root.css_tag.len() == 0, "O16.1 ordinary content styles nothing");
            if with_child {
                assert!(root.enclosing[0].css_tag.len() == 0, "O16.1 ordinary content styles nothing");
                if in_inner {
                    assert!(root.enclosing[0].enclosing.len() == 1 && root.enclosing.len() == 1, "O10.3 the fragment goes to the innermost enclosing shape");
                } else {
                    assert!(root.enclosing[0].enclosing.len() == 0 && root.enclosing.len() == 2, "O10.3 the fragment goes to the shape that encloses it");
                }
            }
        }
    }
    std::mem::forget(root);
    std::mem::forget(probe);
}

//@ harness: o16_1_tag_innermost props=C16 tier=stretch obl=O16.1 timeout=3000 mem=52
//@ desc: nested pre-built tree (outer rect 20x10 cells, inner rect 10x4 cells inside it) and a {tag} carrier at three representative cells - inside the inner box (row symbolic 4..6), inside the outer box only, outside both: one step of enclose_deep_first gives the tag to the INNERMOST enclosing rect only (children are tried before the node itself), adds no node; outside it returns false and changes nothing.  The position is concrete/one-dimensional here because the fully symbolic nested step ran out of 20 GB; all positions are covered for a single node by o16_1_tag_single and for the fit test by o10_4_can_fit_*; as_css_tag stubbed (a filled one-cell rect is the designated tag carrier; the real one needs the pom parser)
//@ encodes: FragmentTree::enclose_deep_first, FragmentTree::can_fit, Fragment::can_fit, Rect::bounds
#[kani::proof]
#[kani::unwind(2)]
#[kani::stub(crate::buffer::fragment_buffer::fragment::Fragment::as_css_tag, stub_css_tag)]
#[kani::stub(std::vec::Vec::new, crate::kstub::vec_new_small)]
#[kani::stub(std::vec::Vec::push, crate::kstub::push_nogrow)]
#[kani::stub(std::io::_print, crate::kstub::noop_print)]
fn o16_1_tag_innermost() {
    let which: u8 = kani::any();
    kani::assume(which < 3);
    match which {
        0 => tree_step_at(true, true, 10, 5),
        1 => tree_step_at(true, true, 2, 5),
        _ => tree_step_at(true, true, 25, 5),
    }
}

//@ harness: o16_1_tag_single props=C16 tier=quick obl=O16.1 timeout=800 mem=20
//@ desc: as o16_1_tag_innermost with a single rect (no nesting): the rect receives the tag iff the carrier lies inside it
//@ encodes: FragmentTree::enclose_deep_first, FragmentTree::can_fit
#[kani::proof]
#[kani::unwind(3)]
#[kani::stub(crate::buffer::fragment_buffer::fragment::Fragment::as_css_tag, stub_css_tag)]
#[kani::stub(std::vec::Vec::new, crate::kstub::vec_new_small)]
#[kani::stub(std::vec::Vec::push, crate::kstub::push_nogrow)]
#[kani::stub(std::io::_print, crate::kstub::noop_print)]
fn o16_1_tag_single() {
    tree_step(false, true);
}

//@ harness: o10_3_tree_step_plain props=C10,C16 tier=stretch obl=O10.3 timeout=3000 mem=52
//@ desc: same nested tree, an ordinary one-cell fragment at the same three representative cells: one step of enclose_deep_first adds it exactly once, under the innermost rect that encloses it, changes no css_tag; outside both it returns false and the tree is unchanged (fragments are neither lost nor duplicated)
//@ encodes: FragmentTree::enclose_deep_first, FragmentTree::can_fit
#[kani::proof]
#[kani::unwind(2)]
#[kani::stub(crate::buffer::fragment_buffer::fragment::Fragment::as_css_tag, stub_css_tag)]
#[kani::stub(std::vec::Vec::new, crate::kstub::vec_new_small)]
#[kani::stub(std::vec::Vec::push, crate::kstub::push_nogrow)]
#[kani::stub(std::io::_print, crate::kstub::noop_print)]
fn o10_3_tree_step_plain() {
    let which: u8 = kani::any();
    kani::assume(which < 3);
    match which {
        0 => tree_step_at(true, false, 10, 5),
        1 => tree_step_at(true, false, 2, 5),
        _ => tree_step_at(true, false, 25, 5),
    }
}

//@ harness: o10_3_tree_step_plain_single props=C10,C16 tier=quick obl=O10.3 timeout=800 mem=20
//@ desc: single rect (no nesting), an ordinary one-cell fragment at ANY cell of a 30x15 window: enclose_deep_first adds it exactly once iff its cell rectangle lies inside the rect, never styles, otherwise leaves the tree unchanged
//@ encodes: FragmentTree::enclose_deep_first, FragmentTree::can_fit
#[kani::proof]
#[kani::unwind(3)]
#[kani::stub(crate::buffer::fragment_buffer::fragment::Fragment::as_css_tag, stub_css_tag)]
#[kani::stub(std::vec::Vec::new, crate::kstub::vec_new_small)]
#[kani::stub(std::vec::Vec::push, crate::kstub::push_nogrow)]
#[kani::stub(std::io::_print, crate::kstub::noop_print)]
fn o10_3_tree_step_plain_single() {
    tree_step(false, false);
}

//@ target: src/buffer/fragment_buffer/fragment_tree.rs
// Harnesses on the containment tree (C10: nothing lost or duplicated; C16:
// a {tag} styles the innermost enclosing shape and is not rendered).
// Fragment::as_css_tag needs the pom parser (out of Kani's reach), so it is
// stubbed: the designated carrier fragment (a CellText whose content starts
// with '{') yields the harness-chosen tag list, everything else yields [].
#![allow(warnings)]
use super::*;
use crate::kstub::*;
use crate::buffer::Span;
use crate::fragment::{rect, CellText};
use crate::{Cell, Point};

fn p4(nx: i32, ny: i32) -> Point {
    Point::new(nx as f32 * 0.25, ny as f32 * 0.25)
}

fn fs(f: Fragment) -> FragmentSpan {
    FragmentSpan::new(Span(Vec::with_capacity(1)), f)
}

/// stub for Fragment::as_css_tag
fn stub_css_tag(f: &Fragment) -> Vec<String> {
    let mut out: Vec<String> = Vec::with_capacity(2);
    if let Fragment::CellText(ct) = f {
        if ct.content.len() > 0 && ct.content.as_bytes()[0] == b'{' {
            let mut s = String::with_capacity(2);
            s.push('t');
            out.push(s);
        }
    }
    out
}

fn text_frag(cx: i32, cy: i32, tag: bool) -> Fragment {
    let mut s = String::with_capacity(2);
    s.push(if tag { '{' } else { 'x' });
    Fragment::CellText(CellText::new(Cell::new(cx, cy), s))
}

fn count_nodes(t: &FragmentTree) -> usize {
    // depth <= 2 in these harnesses
    let mut n = 1;
    let mut i = 0;
    while i < t.enclosing.len() {
        n += 1 + t.enclosing[i].enclosing.len();
        i += 1;
    }
    n
}

/// outer box: cells (0,0)..(40,20); inner box: cells (10,5)..(30,15) (cell
/// units; a cell is 1 x 2).  The probe fragment is a one-character text whose
/// cell is symbolic but at least two cells away from every box edge, so the
/// verdict does not depend on how wide the text's own bounding box is.
fn tree_step(with_child: bool, tag: bool) {
    let outer = rect(Point::new(0.5, 1.0), Point::new(40.5, 41.0), false, false);
    let inner = rect(Point::new(10.5, 11.0), Point::new(30.5, 31.0), false, false);
    let mut root = FragmentTree::new(fs(outer));
    if with_child {
        root.enclosing.push(FragmentTree::new(fs(inner)));
    }
    let cx = any_in(0, 60);
    let cy = any_in(0, 30);
    // classify the probe cell against the two boxes, keeping a 3-cell margin
    let in_inner = cx >= 13 && cx <= 26 && cy >= 7 && cy <= 12;
    let in_outer_margin = cx >= 3 && cx <= 36 && cy >= 2 && cy <= 17;
    let clear_of_inner = cx <= 8 || cx >= 31 || cy <= 4 || cy >= 16;
    let in_outer_only = in_outer_margin && (!with_child || clear_of_inner);
    let outside = cx >= 44 || cy >= 23;
    kani::assume(in_inner || in_outer_only || outside);
    let probe = FragmentTree::new(fs(text_frag(cx, cy, tag)));
    let before = count_nodes(&root);
    let took = root.enclose_deep_first(&probe);
    let after = count_nodes(&root);
    if with_child {
        kani::cover!(took && in_inner, "probe lands in the inner box");
    }
    kani::cover!(took && in_outer_only, "probe lands in the outer box only");
    kani::cover!(!took, "probe lies outside");
    if outside {
        assert!(!took, "O10.3 a fragment outside every shape is not enclosed");
        assert!(after == before && root.css_tag.len() == 0, "O10.3 the tree is unchanged when nothing encloses the fragment");
        if with_child {
            assert!(root.enclosing[0].css_tag.len() == 0 && root.enclosing[0].enclosing.len() == 0, "O10.3 the child is unchanged when nothing encloses the fragment");
        }
    } else {
        assert!(took, "O10.3 a fragment inside a shape's bounding box is enclosed by it");
        if tag {
            // C16: the tag goes to the innermost enclosing shape only and is not rendered
            assert!(after == before, "O16.1 a {tag} is not added as a node (it is not rendered)");
            if with_child && in_inner {
                assert!(root.enclosing[0].css_tag.len() == 1 && root.css_tag.len() == 0, "O16.1 the innermost enclosing shape receives the tag, the outer one does not");
            } else {
                assert!(root.css_tag.len() == 1, "O16.1 the enclosing shape receives the tag");
                if with_child {
                    assert!(root.enclosing[0].css_tag.len() == 0, "O16.1 a shape that does not enclose the tag is not styled");
                }
            }
        } else {
            // C10: exactly one node added, no styling
            assert!(after == before + 1, "O10.3 an enclosed fragment is added exactly once");
            assert!(root.css_tag.len() == 0, "O16.1 ordinary text styles nothing");
            if with_child {
                assert!(root.enclosing[0].css_tag.len() == 0, "O16.1 ordinary text styles nothing");
                if in_inner {
                    assert!(root.enclosing[0].enclosing.len() == 1 && root.enclosing.len() == 1, "O10.3 the fragment goes to the innermost enclosing shape");
                } else {
                    assert!(root.enclosing[0].enclosing.len() == 0 && root.enclosing.len() == 2, "O10.3 the fragment goes to the shape that encloses it");
                }
            }
        }
    }
    std::mem::forget(root);
    std::mem::forget(probe);
}

//@ harness: o16_1_tag_innermost props=C16 tier=quick obl=O16.1 timeout=2400 mem=20
//@ desc: pre-built tree (outer rect 40x20 cells, inner rect 20x10 cells inside it), a one-character {tag} carrier at a symbolic cell (60x30 window, >= 2 cells away from every edge): one step of enclose_deep_first gives the tag to the innermost enclosing rect only, adds no node; outside both boxes it returns false and changes nothing; as_css_tag stubbed (pom out of reach); bounded Vec
//@ encodes: FragmentTree::enclose_deep_first, FragmentTree::can_fit, Fragment::can_fit, CellText::bounds, Rect::bounds
#[kani::proof]
#[kani::unwind(6)]
#[kani::stub(crate::buffer::fragment_buffer::fragment::Fragment::as_css_tag, stub_css_tag)]
fn o16_1_tag_innermost() {
    tree_step(true, true);
}

//@ harness: o16_1_tag_single props=C16 tier=quick obl=O16.1 timeout=2400 mem=20
//@ desc: as o16_1_tag_innermost with a single rect (no nesting): the rect receives the tag iff the carrier lies inside it
//@ encodes: FragmentTree::enclose_deep_first, FragmentTree::can_fit
#[kani::proof]
#[kani::unwind(6)]
#[kani::stub(crate::buffer::fragment_buffer::fragment::Fragment::as_css_tag, stub_css_tag)]
fn o16_1_tag_single() {
    tree_step(false, true);
}

//@ harness: o10_3_tree_step_plain props=C10,C16 tier=quick obl=O10.3 timeout=2400 mem=20
//@ desc: same pre-built nested tree, an ordinary one-character text at a symbolic cell: one step of enclose_deep_first adds it exactly once, under the innermost rect that encloses it, changes no css_tag; outside both it returns false and the tree is unchanged (fragments are neither lost nor duplicated)
//@ encodes: FragmentTree::enclose_deep_first, FragmentTree::can_fit
#[kani::proof]
#[kani::unwind(6)]
#[kani::stub(crate::buffer::fragment_buffer::fragment::Fragment::as_css_tag, stub_css_tag)]
fn o10_3_tree_step_plain() {
    tree_step(true, false);
}

//@ target: src/buffer/cell_buffer/cell.rs
// Harnesses on Cell: adjacency (C10), coordinate finiteness (C01), exactness
// of absolute_position / localize (C06).
#![allow(warnings)]
use super::*;
use crate::kstub::*;

//@ harness: o10_1_adjacent_is_chebyshev props=C10 tier=quick obl=O10.1 timeout=300 mem=6
//@ desc: Cell::is_adjacent(a,b) <=> max(|dx|,|dy|) <= 1 for all cells with |coords| <= 2^29 (no overflow panic inside the bound); symmetric
//@ encodes: Cell::is_adjacent
#[kani::proof]
#[kani::stub(std::io::_print, crate::kstub::noop_print)]
fn o10_1_adjacent_is_chebyshev() {
    let b = 1 << 29;
    let a = Cell::new(any_in(-b, b), any_in(-b, b));
    let c = Cell::new(any_in(-b, b), any_in(-b, b));
    let dx = (a.x as i64 - c.x as i64).abs();
    let dy = (a.y as i64 - c.y as i64).abs();
    let expected = dx <= 1 && dy <= 1;
    kani::cover!(expected && dx == 1 && dy == 1, "diagonal neighbours");
    assert!(a.is_adjacent(&c) == expected, "O10.1 adjacency is Chebyshev distance <= 1");
    assert!(a.is_adjacent(&c) == c.is_adjacent(&a), "O10.1 adjacency is symmetric");
}

//@ harness: o1_2_cell_points_finite props=C01 tier=quick obl=O1.2 timeout=600 mem=8
//@ desc: for cells with |x|,|y| <= 2^20: top_left_most, bottom_right_most, all 25 grid points a..y and absolute_position of any lattice point are finite, so util::ord can never see a NaN coming from cell arithmetic; Point::scale with scale in (0, 1024] stays finite
//@ encodes: Cell::top_left_most, Cell::bottom_right_most, Cell::a..y, Cell::absolute_position, Point::scale, CellGrid::point
#[kani::proof]
#[kani::stub(std::io::_print, crate::kstub::noop_print)]
fn o1_2_cell_points_finite() {
    let b = 1 << 20;
    let c = Cell::new(any_in(-b, b), any_in(-b, b));
    let tl = c.top_left_most();
    let br = c.bottom_right_most();
    assert!(tl.x.is_finite() && tl.y.is_finite() && br.x.is_finite() && br.y.is_finite(), "O1.2 cell corners are finite");
    assert!(tl.x == c.x as f32 && tl.y == 2.0 * c.y as f32, "O1.2 cell origin is (x, 2y)");
    let pts = [c.a(), c.e(), c.m(), c.q(), c.u(), c.y()];
    let mut i = 0;
    while i < pts.len() {
        assert!(pts[i].x.is_finite() && pts[i].y.is_finite(), "O1.2 grid points are finite");
        assert!(pts[i] >= tl && pts[i] <= br, "O1.2 grid points are ordered between the cell corners without panic");
        i += 1;
    }
    let p = Point::new(any_in(-64, 64) as f32 * 0.25, any_in(-64, 64) as f32 * 0.25);
    let ap = c.absolute_position(p);
    assert!(ap.x.is_finite() && ap.y.is_finite(), "O1.2 absolute positions are finite");
    let s: f32 = kani::any();
    kani::assume(s > 0.0 && s <= 1024.0);
    let sp = ap.scale(s);
    assert!(sp.x.is_finite() && sp.y.is_finite(), "O1.2 scaled positions are finite");
    let _ = sp.cmp(&ap);
}

//@ harness: o6_2_cell_abs_local_exact props=C06 tier=quick obl=O6.2 timeout=600 mem=8
//@ desc: for cells (k <= 4096, n <= 4096) and lattice points (eighth units, |coords| <= 64 units): absolute_position adds exactly (k, 2n); localize_point(absolute_position(p)) == p; localize_cell is the integer difference
//@ encodes: Cell::absolute_position, Cell::localize_point, Cell::localize_cell, Cell::top_left_most
#[kani::proof]
#[kani::stub(std::io::_print, crate::kstub::noop_print)]
fn o6_2_cell_abs_local_exact() {
    let c = Cell::new(any_in(0, 4096), any_in(0, 4096));
    let px = any_in(-512, 512) as f32 * 0.125;
    let py = any_in(-512, 512) as f32 * 0.125;
    let p = Point::new(px, py);
    let ap = c.absolute_position(p);
    assert!(ap.x == px + c.x as f32 && ap.y == py + 2.0 * c.y as f32, "O6.2 absolute_position adds exactly (k, 2n)");
    let back = c.localize_point(ap);
    assert!(back.x == px && back.y == py, "O6.2 localize_point inverts absolute_position");
    let d = Cell::new(any_in(0, 4096), any_in(0, 4096));
    let lc = c.localize_cell(d);
    assert!(lc.x == d.x - c.x && lc.y == d.y - c.y, "O6.2 localize_cell is the difference");
}

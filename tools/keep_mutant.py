#!/usr/bin/env python3
"""keep_mutant.py <outdir> <A|B> <id> <property> -- copies a confirmed seeded change into /verif/seeded/<id>/"""
import json, os, shutil, sys, subprocess
out, v, mid, prop = sys.argv[1:5]
d = os.path.join("/verif/seeded", mid)
os.makedirs(d, exist_ok=True)
shutil.copy(os.path.join(out, v + ".patch.diff"), os.path.join(d, "patch.diff"))
shutil.copy(os.path.join(out, v + ".demo.rs"), os.path.join(d, "demo.rs"))
notes = open(os.path.join(out, v + ".meta.txt")).read()
open(os.path.join(d, "author_notes.txt"), "w").write(notes)
meta = {
    "id": mid,
    "property": prop,
    "origin": "independent sub-agent given only the property text and a scratch worktree",
    "needs_to_manifest": "",
    "confirmed": {
        "base_commit": subprocess.run(["git", "-C", "/repo", "log", "--format=%h", "-1"], capture_output=True, text=True).stdout.strip(),
        "how": "tools/confirm_mutant.sh: fresh worktree of /repo HEAD; demo passes without the patch; with the patch the pinned suite passes and the demo fails",
        "result": "",
    },
    "checks_run": [],
    "detected": None,
}
mp = os.path.join(d, "meta.json")
if os.path.exists(mp):
    old = json.load(open(mp))
    for k in ("needs_to_manifest", "checks_run", "detected"):
        if old.get(k):
            meta[k] = old[k]
    if old.get("confirmed", {}).get("result"):
        meta["confirmed"] = old["confirmed"]
json.dump(meta, open(mp, "w"), indent=1)
print("kept", d)

#!/usr/bin/env python3
"""writes /verif/MANIFEST.json (kept in one place so that it stays valid)"""
import json, os
V = os.path.dirname(os.path.dirname(os.path.abspath(__file__)))

CLAIMS = {
 "C01": ("kani-bmc", "§4 C01",
   "Kernel-level totality: CBMC decides, for every input inside the stated bounds, that none of the anchored abort sites in the float/ordering/heading/merge_circle/endorsement/span-bounds/merge-loop kernels is reachable. Not a whole-pipeline claim.",
   "Kani harnesses over the real functions; bounds and stubs (any_atan, powf_sq, bounded Vec) per harness in the evidence. Abort sites behind Lazy/BTreeMap/pom (escape_line, circle_map assert, sauron render) are outside the claim."),
 "C02": ("kani-bmc", "§4 C02",
   "Text and class sinks only: for EVERY Unicode scalar the bytes written to a text node are XML-legal, carry no raw < & >, and decode back to the input character (or it is dropped and is NUL/unrepresentable); every character the identifier grammar admits is attribute-safe.",
   "Legend-CSS/style sink, settings strings, root attributes and sauron's renderer are outside the claim (pom/format! are beyond Kani)."),
 "C03": ("tablesmt+kani", "§4 C03",
   "z3 decides over all 4^8 neighbourhoods that the strokes of - | + equal the specification; CBMC decides that line merging and rectangle endorsement preserve the stroked point set (exact lattice oracle) and that a span merge step joins exactly 8-adjacent cell groups whatever the cell order (O10.2: a cell sees its neighbours only inside its span).",
   "Grid-level composition (per-cell strokes -> merge -> endorse) is argued, not solved; the translator of the tables is validated against the real crate on random neighbourhoods each run."),
 "C04": ("kani-bmc", "§4 C04",
   "CBMC decides that one-character texts merge exactly when they sit at consecutive display columns (double-width = 2), that the merged text starts at the left cell, and that the anchor lies strictly inside the start cell.",
   "StringBuffer/CellBuffer construction, the concatenated content of merged text (format! stubbed) and the quoted-text channel are outside the claim."),
 "C05": ("kani-bmc+tablesmt", "§4 C05",
   "z3 decides that every cell of a box border (edge characters - ~ | : ! and the box-drawing ones, sharp corners + and the box-drawing corners) emits exactly its border stroke in every neighbourhood a box admits; CBMC decides soundness (an endorsed rect has exactly its four lines as sides: no ladder, overhang or T) and completeness (every closed box within the stated sizes/offsets/orders) of endorse_rect on symbolic lattice lines, and completeness of endorse_rounded_rect on the 4 sides + 4 quarter arcs of a rounded box; and that a span merge step joins exactly 8-adjacent cell groups (O10.2), so a box and the text inside it cannot split its border over two spans.",
   "Bounded-capacity Vec stubs, powf stubbed by exact square; that the span pipeline delivers the sides as one contact group, and soundness of the ROUNDED variant (is_rounded_rect checks perpendicularity only), are outside the claim."),
 "C06": ("kani-bmc", "§4 C06",
   "Relational harnesses: each float predicate and each absolute_position/localize gives the same answer (resp. the answer shifted) when the lattice inputs are shifted by (k,n) cells, k,n symbolic in bounds.",
   "Kernel level only: composition through the pipeline and the circle catalogue (Lazy) are outside the claim."),
 "C08": ("kani-bmc", "§4 C08",
   "Same obligations as C02's text/class sinks: no scalar reaches a text node as raw markup; identifier characters cannot leave a class attribute.",
   "The legend path (raw CSS into <style>) — the property's headline risk — is NOT decided: pom and format! are beyond Kani."),
 "C09": ("kani-bmc+tablesmt", "§4 C09",
   "CBMC decides that a merged run of k cells merges with the next cell's segment into the exact hull (k symbolic, 4 direction families), that can_merge is exactly collinear-and-touching on the lattice, and that the generic merge loop ends in a pairwise-unmergeable state; z3 decides that every run character emits its full-cell segment.",
   "Induction over k and the composition are argued; the generic merge loop is verified on a cheap instantiation (integer intervals)."),
 "C10": ("kani-bmc", "§4 C10",
   "CBMC decides: cell adjacency = Chebyshev<=1; one span-merge step joins exactly adjacent spans (1- and 2-cell spans); the generic merge loop reaches a fixpoint preserving the union; one containment-tree step on a single shape adds a fragment exactly once; can_fit = bbox containment.",
   "Kernel level: the multiset equality of whole renderings is argued from these lemmas."),
 "C11": ("kani-bmc", "§4 C11",
   "CBMC decides for every fragment type that scale multiplies every coordinate/radius/rx by the factor and nothing else (scales with <=8 significant bits: all products exact), and that canvas size is linear in scale with an 8x16 default cell.",
   "That both call sites call scale, and number formatting, are outside the claim."),
 "C12": ("tablesmt+kani", "§4 C12",
   "z3 decides for every table character and every neighbourhood that emitted fragments stay within the canvas implied by the occupied cells, and for every entry of the circle catalogue at every placement that the endorsed circle does; CBMC decides the size formula.",
   "Quoted-text channel, endorsed arcs (Lazy arc catalogues) and legends are outside the claim; the catalogue circle's four arithmetic one-liners are shape-checked and re-stated in SMT, and validated against the real crate's rendering of all entries each run."),
 "C13": ("tablesmt", "§4 C13",
   "Geometry half only, catalogue level: the 22 catalogue entries are read from circle_map.rs; with the entry index, the cell index and the placement (k, n >= 0) symbolic, z3 decides that the emitted circle's horizontal extent equals the drawing's extent (radius (n-1)/2 cells, n/2 when the left-most column holds a slash) and that every occupied cell of the drawing lies within one cell (2.5 units centre-to-line) of the circle.",
   "NOT decided: that a catalogue drawing in a real page is matched and emitted as exactly one circle and nothing else (endorse_circle_span, is_subset_of, CellBuffer/BTreeMap, Lazy statics: out of reach of every engine here) - on every run each entry is only rendered once by the real crate at the origin and compared with the model (translator validation, a concrete run, not a verdict). CircleArt::width/radius/edge_increment_x/center are shape-checked and re-stated in SMT (changed shape => INCONCLUSIVE)."),
 "C14": ("tablesmt+kani", "§4 C14",
   "z3 decides over all neighbourhoods: arrowheads fire only with a line on their tail side and have tip/base geometry as stated; corner arcs in box outlines are continuous and bulge outward; bullets become the documented circle exactly when attached. CBMC decides merge_circle yields a marker line ending at the bullet centre.",
   "Polygon->marker merging is commented out in svgbob; path rendering is outside the claim."),
 "C16": ("kani-bmc", "§4 C16",
   "Tags half only, single shape: one containment-tree step gives a {tag} to a rect exactly when the rect's bounding box contains the carrier, adds no node for it (it is not rendered), adds ordinary content exactly once and leaves an unenclosed fragment alone, for every carrier position; can_fit = bounding-box containment; identifier characters are attribute-safe.",
   "as_css_tag is stubbed (pom; a designated rect is the tag carrier). NOT decided: that nested shapes give the tag to the INNERMOST one (the nested step ran out of memory; kept in the thorough tier only), the legend grammar half, the tag grammar."),
}

NA = {
 "C07": "quantifies over thread schedules, hash seeds and call histories: Kani has no concurrency, cannot compile once_cell::Lazy (compiler ICE) and does not finish HashMap; no other engine here executes Rust symbolically",
 "C15": "rests on the pom combinator parser, str searching and unicode-width on strings: did not finish under Kani with every mitigation (>1200 s, 15 GB on a 4-char line)",
 "C17": "line splitting (str::lines) and the legend grammar (pom) are out of reach of every symbolic engine in the image",
 "C18": "whole-document relational claim through CellBuffer (BTreeMap), Lazy tables, sauron's vdom and fmt; no kernel carries it",
 "C19": "process-level behaviour of a clap/fs/stdin main(): not callable as a unit, Kani does not model I/O",
 "C20": "axum/tokio server and request interleavings: Kani models neither I/O nor concurrency",
}

def main():
    have = set()
    import re
    for fn in os.listdir(os.path.join(V, "kani")):
        if fn.endswith("_h.rs"):
            for m in re.finditer(r"^//@ harness:.*props=(\S+)", open(os.path.join(V, "kani", fn)).read(), re.M):
                have.update(m.group(1).split(","))
    have.update(["C03", "C05", "C12", "C13", "C14", "C09"])
    checks = []
    for pid in sorted(CLAIMS):
        if pid not in have:
            continue
        tech, ref, text, note = CLAIMS[pid]
        checks.append({
            "property_id": pid,
            "quick_cmd": "./check %s --tier quick" % pid,
            "thorough_cmd": "./check %s --tier thorough" % pid,
            "evidence_file": "/verif/evidence/%s.json" % pid,
            "replay_cmd_template": "./check %s --replay {path}" % pid,
            "engine": tech,
            "level_claimed": {"category": "model_checking", "text": text, "design_ref": ref},
            "level_note": note,
            "technique": {"kani-bmc": "bounded model checking of the real Rust functions with Kani/CBMC (SAT)",
                          "tablesmt": "source-to-SMT translation of the circle catalogue (data read from circle_map.rs, arithmetic one-liners shape-checked) decided by z3 over symbolic entry/cell index and placement, cvc5 cross-check, counterexamples replayed through the public API",
                          "tablesmt+kani": "source-to-SMT translation of the character tables decided by z3 (cvc5 cross-check) + Kani/CBMC harnesses",
                          "kani-bmc+tablesmt": "Kani/CBMC harnesses + source-to-SMT translation of the character tables decided by z3",
                          }[tech],
        })
    na = [{"property_id": k, "reason": v} for k, v in sorted(NA.items())]
    for pid in sorted(CLAIMS):
        if pid not in have:
            na.append({"property_id": pid, "reason": "check not built yet"})
    man = {
        "version": 1,
        "setup_cmd": "./setup.sh",
        "hooks": {"guard": "kani", "enable": "none: harness modules are injected into a scratch copy of the crate under #[cfg(kani)] (set only by the Kani compiler); /repo carries no hooks",
                  "baseline_off_cmd": "cd /repo && cargo test --workspace --no-fail-fast --offline",
                  "source_commits": [], "add_only": True},
        "engines": [
            {"name": "kani", "path": "/verif/kani", "serves_properties": sorted(p for p in CLAIMS if p in have and CLAIMS[p][0] != "tablesmt"),
             "kind_free_text": "Kani 0.68 / CBMC 6.11 proof harnesses injected as child modules into a scratch copy of /repo/crates/svgbob"},
            {"name": "tablesmt", "path": "/verif/vlib/tablesmt.py", "serves_properties": ["C03", "C05", "C09", "C12", "C13", "C14"],
             "kind_free_text": "translator from map/ascii_map.rs + map/unicode_map.rs (and the data of map/circle_map.rs) to SMT-LIB2, decided by z3, cross-checked by cvc5, validated against the real crate (/verif/replay)"},
        ],
        "checks": checks,
        "not_applicable": na,
        "notes": "exit 0 = all obligations discharged; exit 1 = VIOLATION (counterexample replayed natively: Kani concrete playback, or the 3x3 grid evaluated by the real crate for engine T); exit 2 = INCONCLUSIVE (timeout/OOM/bound too small/harness no longer compiles/translator and code disagree) - never printed as VIOLATION, never exit 0. A harness that PASSED on byte-identical inputs (crate sources, Cargo.lock, harness text, stubs) is answered from ~/.cache/verif-svgbob/results (evidence marks it verdict_reused_from; VERIF_NO_CACHE=1 disables); any change under crates/svgbob/src invalidates all of it. Five genuine defects of svgbob were found and repaired by unguarded fix: commits (known_findings.txt); there are no KNOWN-FINDING suppressions. Seeded changes and what catches them: seeded/*/meta.json and DESIGN.md 6d.",
    }
    json.dump(man, open(os.path.join(V, "MANIFEST.json"), "w"), indent=1)
    print("wrote MANIFEST.json with %d checks, %d not_applicable" % (len(checks), len(na)))

main()

#!/usr/bin/env python3
"""markdown: per property, which obligations the quick / thorough tier decides (from the harness registry and engine T's query list)"""
import sys, os, json, collections
sys.path.insert(0, os.path.dirname(os.path.dirname(os.path.abspath(__file__))))
from vlib import core
hs = core.load_registry()
T = {"C03": "o3_1_strokes_{-,|,+} (3 queries over 4^8 neighbourhoods)",
     "C05": "o5_t_edge_* (20), o5_t_corner_* (8), o5_t_rounded_* (4) - border cells of a box emit exactly the border strokes",
     "C09": "o9_5_run_cell_* (21 run characters)",
     "C12": "o12_2_contained_* (one query per table character, 120), o12_3_circle_catalogue (entry index and placement symbolic)",
     "C13": "o13_1_extent_radius (1), o13_2a_offset_placement_free_* (22), o13_2_cells_near_circle_* (22)",
     "C14": "o14_1_arrow_* (31), o14_2_corner_*_join/_bulge (24), o14_2_corner_closes_* (8), o14_2_rounded_* (4), o14_3_bullet_* (12)"}
props = sorted(set(p for h in hs for p in h.props) | set(T))
print("| property | quick tier (per change, <= 900 s) | additionally in the thorough tier | engine T queries (both tiers) |")
print("|---|---|---|---|")
for p in props:
    q = sorted(h.name for h in hs if p in h.props and h.tier in ("quick", "quickonly"))
    t = sorted(h.name for h in hs if p in h.props and h.tier == "thorough")
    print("| %s | %s | %s | %s |" % (p, ", ".join("`%s`" % x for x in q), ", ".join("`%s`" % x for x in t) or "-", T.get(p, "-")))

#!/usr/bin/env python3
"""reads /tmp/mutres/<id>/<prop>.log (written by tools/run_mutant.sh) and records the outcome in seeded/<id>/meta.json"""
import json, os, re, glob, sys
rows = []
for d in sorted(glob.glob("/verif/seeded/*")):
    mid = os.path.basename(d)
    mp = os.path.join(d, "meta.json")
    meta = json.load(open(mp))
    runs = []
    for lg in sorted(glob.glob("/tmp/mutres/%s/*.log" % mid)):
        prop = os.path.basename(lg)[:-4]
        txt = open(lg).read()
        viol = re.findall(r"^VIOLATION property=\S+ replay=(\S+)", txt, re.M)
        failed = re.findall(r"^  failed: (.*)$", txt, re.M)
        inconc = re.findall(r"^INCONCLUSIVE property=\S+ (.*)$", txt, re.M)
        ok = re.findall(r"^OK property=.*$", txt, re.M)
        outcome = "VIOLATION" if viol else ("INCONCLUSIVE" if inconc else ("OK" if ok else "unfinished"))
        cmdf = lg[:-4] + ".cmd"
        cmd = open(cmdf).read().strip() if os.path.exists(cmdf) else "VERIF_REPO=<worktree of /repo HEAD + patch> ./check %s --tier quick" % prop
        hs = re.findall(r"^  \[C\d+\] (\S+)\s+(pass\*?|fail|inconclusive)", txt, re.M)
        runs.append({"cmd": cmd, "outcome": outcome, "harnesses": ["%s:%s" % h for h in hs],
                     "failed_assertions": failed[:4], "inconclusive": inconc[:3],
                     "replay": [os.path.basename(v) for v in viol[:2]]})
    if runs:
        meta["checks_run"] = runs
        meta["detected"] = any(r["outcome"] == "VIOLATION" for r in runs)
    json.dump(meta, open(mp, "w"), indent=1)
    rows.append((mid, meta["property"], meta.get("detected"), "; ".join("%s:%s" % (" ".join(r["cmd"].split("./check ")[1:]), r["outcome"]) for r in meta.get("checks_run", []))))
for r in rows:
    print("%-8s %-4s detected=%-5s %s" % r)

#!/bin/bash
# usage: tools/confirm_mutant.sh <outdir> <A|B> <name>
# Confirms a seeded change independently: on a fresh worktree of /repo HEAD
#  (1) demo passes without the patch, (2) with the patch the pinned suite passes, (3) the demo fails.
out=$1; v=$2; name=$3
wt=/var/tmp/verif-mut/confirm-$name
export CARGO_TARGET_DIR=/var/tmp/verif-mut/confirm-target CARGO_NET_OFFLINE=true
rm -rf "$wt"; mkdir -p /var/tmp/verif-mut
git -C /repo worktree prune
git -C /repo worktree add -q --detach "$wt" HEAD || exit 3
cp "$out/$v.demo.rs" "$wt/crates/svgbob/tests/demo_$name.rs"
cd "$wt"
r1=$(cargo test -p svgbob --offline --test demo_$name 2>&1 | grep -E "^test result" | head -1)
if ! git apply "$out/$v.patch.diff"; then echo "$name: PATCH DOES NOT APPLY on HEAD"; cd /; git -C /repo worktree remove --force "$wt"; exit 3; fi
r3=$(cargo test -p svgbob --offline --test demo_$name 2>&1 | grep -E "^test result" | head -1)
rm crates/svgbob/tests/demo_$name.rs
r2=$(cargo test --workspace --no-fail-fast --offline 2>&1 | grep -E "^test result" | tr '\n' ';')
echo "$name: demo_without_patch=[$r1] suite_with_patch=[$r2] demo_with_patch=[$r3]"
cd /; git -C /repo worktree remove --force "$wt"

#!/bin/bash
# usage: tools/eval_seed.sh <agent out dir> <id> <property> [more properties to run]
# stage a sub-agent's deliverables, confirm them independently (serialised by a lock: shared target dir),
# then run the registered quick check(s) against a worktree with the patch.  Log: /tmp/mutres/<id>.eval
out=$1; id=$2; shift 2
st=/tmp/mut/$id; mkdir -p $st /tmp/mutres
cp $out/patch.diff $st/A.patch.diff; cp $out/demo.rs $st/A.demo.rs; cp $out/notes.txt $st/A.meta.txt
{
  flock 9
  /verif/tools/confirm_mutant.sh $st A $id
} 9>/tmp/mut/confirm.lock > /tmp/mutres/$id.eval 2>&1
cat /tmp/mutres/$id.eval | tail -1
TIER=quick /verif/tools/run_mutant.sh $st/A.patch.diff $id "$@" >> /tmp/mutres/$id.eval 2>&1
tail -2 /tmp/mutres/$id.eval

#!/usr/bin/env python3
"""prints a markdown table of all Kani harnesses (from the //@ annotations) - used for DESIGN.md appendix"""
import sys, os
sys.path.insert(0, os.path.dirname(os.path.dirname(os.path.abspath(__file__))))
from vlib import core
hs = core.load_registry()
print("| harness | injected into | properties | tier | obligation | unwind | statement and bounds |")
print("|---|---|---|---|---|---|---|")
for h in sorted(hs, key=lambda h: (h.obl, h.name)):
    print("| `%s` | `%s` | %s | %s | %s | %s | %s |" % (h.name, h.target.replace("src/", ""), ",".join(h.props), h.tier, h.obl, h.unwind or "-", h.desc.replace("|", "\\|")))

#!/bin/bash
# usage: tools/run_mutant.sh <patch.diff> <tag> <prop> [prop...]      (env: TIER, CHECK_ARGS)
# Evaluates the registered checks against a scratch worktree of /repo with the
# patch applied (VERIF_REPO), so /repo itself is never touched and several
# mutants can be evaluated concurrently.  Results: /tmp/mutres/<tag>/<prop>.log
set -u
patch=$(realpath "$1"); tag=$2; shift 2
wt=/var/tmp/verif-mut/$tag
rm -rf "$wt"; mkdir -p /var/tmp/verif-mut /tmp/mutres/$tag
git -C /repo worktree prune
git -C /repo worktree add -q --detach "$wt" HEAD || exit 3
if ! git -C "$wt" apply "$patch"; then echo "PATCH DOES NOT APPLY"; git -C /repo worktree remove --force "$wt"; exit 3; fi
cd /verif
for p in "$@"; do
  echo "VERIF_REPO=<worktree of /repo HEAD + patch> ./check $p --tier ${TIER:-quick} ${CHECK_ARGS:-}" > /tmp/mutres/$tag/$p.cmd
  VERIF_REPO=$wt VERIF_EVIDENCE_DIR=/tmp/mutres/$tag ./check $p --tier ${TIER:-quick} ${CHECK_ARGS:-} > /tmp/mutres/$tag/$p.log 2>&1
  echo "$tag $p exit=$? $(grep -E '^(VIOLATION|INCONCLUSIVE|OK|KNOWN)' /tmp/mutres/$tag/$p.log | head -3 | tr '\n' ' ')"
done
git -C /repo worktree remove --force "$wt"

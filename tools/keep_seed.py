#!/usr/bin/env python3
"""keep_seed.py <id> <property> "<needs to manifest>" <prop run> [<prop run> ...]
Second-session helper: keeps a sub-agent's confirmed change staged by tools/eval_seed.sh under /tmp/mut/<id>
in /verif/seeded/<id>/ and fills meta.json from /tmp/mutres/<id>.eval and /tmp/mutres/<id>/<prop>.log"""
import json, os, re, subprocess, sys
mid, prop, needs = sys.argv[1:4]
runs = sys.argv[4:]
subprocess.run(["python3", "/verif/tools/keep_mutant.py", "/tmp/mut/" + mid, "A", mid, prop], check=True)
mp = "/verif/seeded/%s/meta.json" % mid
m = json.load(open(mp))
m["needs_to_manifest"] = needs
ev = open("/tmp/mutres/%s.eval" % mid).read()
c = re.search(r"demo_without_patch=\[(.*?)\] suite_with_patch=\[(.*?)\] demo_with_patch=\[(.*?)\]", ev)
passed = sum(int(x) for x in re.findall(r"ok\. (\d+) passed; 0 failed", c.group(2)))
m["confirmed"]["result"] = "demo passes on /repo HEAD (%s); with the patch: pinned suite %d/110 pass, 0 failed; demo: %s" % (
    c.group(1)[13:40], passed, c.group(3)[13:50])
m["checks_run"] = []
det = False
for p in runs:
    log = open("/tmp/mutres/%s/%s.log" % (mid, p)).read()
    last = [l for l in log.split("\n") if re.match(r"^(OK|VIOLATION|INCONCLUSIVE)", l)]
    outcome = "VIOLATION" if any(l.startswith("VIOLATION") for l in last) else ("INCONCLUSIVE" if any(l.startswith("INCONCLUSIVE") for l in last) else "OK (not caught)")
    det = det or outcome == "VIOLATION"
    m["checks_run"].append({
        "cmd": "VERIF_REPO=<worktree of /repo HEAD + patch> ./check %s --tier quick" % p,
        "outcome": outcome,
        "failed_assertions": sorted(set(re.findall(r"^\s+failed: (.*)$", log, re.M))),
        "inconclusive": [l[:200] for l in last if l.startswith("INCONCLUSIVE")],
        "replay": sorted(set(os.path.basename(x) for x in re.findall(r"replay=(\S+)", log))),
        "summary": last[-1] if last else "",
    })
m["detected"] = det
json.dump(m, open(mp, "w"), indent=1)
print(mid, "detected" if det else "NOT detected", [r["outcome"] for r in m["checks_run"]])
